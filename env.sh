# sourced by every script: offline Go environment
export GOFLAGS=-mod=mod GOPROXY=off GOSUMDB=off GOTOOLCHAIN=local
export GOCACHE=${GOCACHE:-/root/.cache/go-build}
