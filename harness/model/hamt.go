package model

import (
	"fmt"
	"math/bits"
	"strconv"

	pb "github.com/ipfs/boxo/ipld/unixfs/pb"
	"github.com/ipfs/go-cid"
	"github.com/spaolacci/murmur3"

	"verif/harness/store"
)

// Hash64 is murmur3-x64-64 of the name; HAMT levels consume it most
// significant bit first.
func Hash64(name string) uint64 { return murmur3.Sum64([]byte(name)) }

// Bucket returns the bucket index of hash h at level `level` for a fanout with
// log2 = w, written as plain arithmetic on the 64-bit value. ok is false when
// the hash has no bits left for that level.
func Bucket(h uint64, level, w int) (idx int, ok bool) {
	if (level+1)*w > 64 {
		return 0, false
	}
	shift := uint(64 - (level+1)*w)
	return int((h >> shift) & ((1 << uint(w)) - 1)), true
}

// PadLen is the width of the upper-hex bucket prefix of link names.
func PadLen(fanout int) int { return len(strconv.FormatInt(int64(fanout-1), 16)) }

// ShardLink is a link of a shard node.
type ShardLink struct {
	PBLink
	Bucket int        // parsed from the name prefix
	Entry  string     // un-prefixed entry name (value links)
	Child  *ShardNode // non-nil for child-shard links
}

// ShardNode is a decoded HAMT shard.
type ShardNode struct {
	Cid    cid.Cid
	Fanout int
	Log2   int
	Level  int
	// Consumed: hash bits used by the levels above this node (each level takes
	// log2 of ITS OWN fanout; Level*Log2 when all levels have one fanout)
	Consumed int
	Links    []ShardLink
	Blk    *Block
}

// Hamt decodes the HAMT rooted at root from stored blocks.
func Hamt(s *store.Store, root cid.Cid) (*ShardNode, error) { return hamt(s, root, 0, 0) }

// bucketAt is the bucket of hash h in a node that sits below `consumed` used
// bits and has log2(fanout) = w.
func bucketAt(h uint64, consumed, w int) (int, bool) {
	if consumed+w > 64 {
		return 0, false
	}
	return int((h >> uint(64-consumed-w)) & ((1 << uint(w)) - 1)), true
}

func hamt(s *store.Store, c cid.Cid, level, consumed int) (*ShardNode, error) {
	if level > 64 {
		return nil, fmt.Errorf("model: hamt too deep")
	}
	blk, err := Load(s, c)
	if err != nil {
		return nil, err
	}
	if blk.FS == nil || blk.FS.GetType() != pb.Data_HAMTShard {
		return nil, fmt.Errorf("model: %s is not a shard", c)
	}
	f := int(blk.FS.GetFanout())
	if f <= 0 || f&(f-1) != 0 {
		return nil, fmt.Errorf("model: bad fanout %d", f)
	}
	n := &ShardNode{Cid: c, Fanout: f, Log2: bits.TrailingZeros(uint(f)), Level: level, Consumed: consumed, Blk: blk}
	pad := PadLen(f)
	for _, l := range blk.PB.Links {
		if len(l.Name) < pad {
			return nil, fmt.Errorf("model: short link name %q", l.Name)
		}
		idx, err := strconv.ParseUint(l.Name[:pad], 16, 32)
		if err != nil {
			return nil, fmt.Errorf("model: bad prefix in %q", l.Name)
		}
		sl := ShardLink{PBLink: l, Bucket: int(idx)}
		if len(l.Name) == pad {
			ch, err := hamt(s, l.Cid, level+1, consumed+n.Log2)
			if err != nil {
				return nil, err
			}
			sl.Child = ch
		} else {
			sl.Entry = l.Name[pad:]
		}
		n.Links = append(n.Links, sl)
	}
	return n, nil
}

// Entry is one directory entry in iteration (depth-first link) order.
type Entry struct {
	Name  string
	Cid   cid.Cid
	Tsize uint64
}

// Entries lists the entries in depth-first link order.
func (n *ShardNode) Entries() []Entry {
	var out []Entry
	for _, l := range n.Links {
		if l.Child != nil {
			out = append(out, l.Child.Entries()...)
		} else {
			out = append(out, Entry{l.Entry, l.Cid, l.Tsize})
		}
	}
	return out
}

// Shards lists the child shard blocks (not the root) in depth-first link
// order, every occurrence.
func (n *ShardNode) Shards() []cid.Cid {
	var out []cid.Cid
	for _, l := range n.Links {
		if l.Child != nil {
			out = append(out, l.Child.Cid)
			out = append(out, l.Child.Shards()...)
		}
	}
	return out
}

// HashPath returns the child shards (not the root) a lookup of name descends
// through, and the entry cid if the name is present.
func (n *ShardNode) HashPath(name string) (path []cid.Cid, found *Entry) {
	h := Hash64(name)
	cur := n
	for {
		idx, ok := bucketAt(h, cur.Consumed, cur.Log2)
		if !ok {
			return path, nil
		}
		var hit *ShardLink
		for i := range cur.Links {
			if cur.Links[i].Bucket == idx {
				hit = &cur.Links[i]
				break
			}
		}
		if hit == nil {
			return path, nil
		}
		if hit.Child == nil {
			if hit.Entry == name {
				return path, &Entry{hit.Entry, hit.Cid, hit.Tsize}
			}
			return path, nil
		}
		path = append(path, hit.Child.Cid)
		cur = hit.Child
	}
}

// WellFormed checks the structural invariants of a canonical HAMT: every
// entry sits in the bucket its hash selects at its level, bitfield bits equal
// the occupied buckets, links are in ascending bucket order.
func (n *ShardNode) WellFormed() error {
	bf := n.Blk.FS.GetData()
	occupied := map[int]bool{}
	prev := -1
	for _, l := range n.Links {
		if l.Bucket <= prev {
			return fmt.Errorf("links out of bucket order in %s", n.Cid)
		}
		prev = l.Bucket
		occupied[l.Bucket] = true
		if l.Child != nil {
			if l.Child.Fanout != n.Fanout {
				return fmt.Errorf("child fanout differs")
			}
			if err := l.Child.WellFormed(); err != nil {
				return err
			}
			for _, e := range l.Child.Entries() {
				if idx, ok := bucketAt(Hash64(e.Name), n.Consumed, n.Log2); !ok || idx != l.Bucket {
					return fmt.Errorf("entry %q below wrong bucket", e.Name)
				}
			}
		} else if idx, ok := bucketAt(Hash64(l.Entry), n.Consumed, n.Log2); !ok || idx != l.Bucket {
			return fmt.Errorf("entry %q in wrong bucket %d", l.Entry, l.Bucket)
		}
	}
	for i := 0; i < n.Fanout; i++ {
		byteIdx := len(bf) - 1 - i/8
		set := byteIdx >= 0 && bf[byteIdx]>>(uint(i)%8)&1 == 1
		if set != occupied[i] {
			return fmt.Errorf("bitfield bit %d = %v, occupied = %v in %s", i, set, occupied[i], n.Cid)
		}
	}
	return nil
}

// MaxLevels is the number of HAMT levels a 64-bit hash can address with
// log2(fanout) = w.
func MaxLevels(w int) int { return 64 / w }

// TooDeep reports whether two of the names fall into the same bucket at every
// addressable level for log2(fanout) = w, i.e. cannot be separated by a HAMT.
func TooDeep(names []string, w int) bool {
	seen := map[uint64]bool{}
	used := uint(MaxLevels(w) * w)
	for _, n := range names {
		p := Hash64(n)
		if used < 64 {
			p >>= (64 - used)
		}
		if seen[p] {
			return true
		}
		seen[p] = true
	}
	return false
}
