package model

import (
	"fmt"

	pb "github.com/ipfs/boxo/ipld/unixfs/pb"
	"github.com/ipfs/go-cid"

	"verif/harness/store"
)

// FileNode is one position in the tree expansion of a file DAG.
type FileNode struct {
	Cid        cid.Cid
	Start, End int64 // byte span [Start,End) of the logical file
	Children   []*FileNode
	Leaf       []byte // content contributed by this block itself
	Blk        *Block
}

// FileTree walks the stored blocks of a UnixFS file rooted at root.
func FileTree(s *store.Store, root cid.Cid) (*FileNode, error) {
	n, _, err := fileTree(s, root, 0, 0)
	return n, err
}

func fileTree(s *store.Store, c cid.Cid, at int64, depth int) (*FileNode, int64, error) {
	if depth > 64 {
		return nil, 0, fmt.Errorf("model: file tree too deep")
	}
	blk, err := Load(s, c)
	if err != nil {
		return nil, 0, err
	}
	n := &FileNode{Cid: c, Start: at, Blk: blk}
	if blk.IsRaw {
		n.Leaf = blk.Bytes
		n.End = at + int64(len(blk.Bytes))
		return n, n.End, nil
	}
	if blk.FS == nil {
		return nil, 0, fmt.Errorf("model: %s has no decodable UnixFS data", c)
	}
	t := blk.FS.GetType()
	if t != pb.Data_File && t != pb.Data_Raw {
		return nil, 0, fmt.Errorf("model: %s is not a file node (type %v)", c, t)
	}
	n.Leaf = blk.FS.GetData()
	cur := at + int64(len(n.Leaf))
	for _, l := range blk.PB.Links {
		ch, end, err := fileTree(s, l.Cid, cur, depth+1)
		if err != nil {
			return nil, 0, err
		}
		n.Children = append(n.Children, ch)
		cur = end
	}
	n.End = cur
	return n, cur, nil
}

// Content returns the file bytes.
func (n *FileNode) Content() []byte {
	var out []byte
	n.walk(func(m *FileNode) { out = append(out, m.Leaf...) })
	return out
}

func (n *FileNode) walk(f func(*FileNode)) {
	f(n)
	for _, c := range n.Children {
		c.walk(f)
	}
}

// DFS returns the blocks in depth-first link order (pre-order, every
// occurrence).
func (n *FileNode) DFS() []cid.Cid {
	var out []cid.Cid
	n.walk(func(m *FileNode) { out = append(out, m.Cid) })
	return out
}

// Nodes returns every position in pre-order.
func (n *FileNode) Nodes() []*FileNode {
	var out []*FileNode
	n.walk(func(m *FileNode) { out = append(out, m) })
	return out
}

// Needed returns the set of blocks (by cid key) that a read of [a,b) may
// touch: every block some occurrence of which has a span intersecting [a,b),
// plus the ancestors of those occurrences. The root is included.
func (n *FileNode) Needed(a, b int64) map[string]bool {
	out := map[string]bool{}
	var rec func(m *FileNode) bool
	rec = func(m *FileNode) bool {
		hit := false
		// a block contributes if its own span intersects; zero-length spans
		// never intersect a non-empty range.
		if m.Start < b && m.End > a {
			hit = true
		}
		for _, c := range m.Children {
			if rec(c) {
				hit = true
			}
		}
		if hit {
			out[m.Cid.KeyString()] = true
		}
		return hit
	}
	rec(n)
	out[n.Cid.KeyString()] = true
	return out
}

// FirstSpanOf returns the smallest Start over all occurrences of any block in
// the set `withheld` (by KeyString) — where a sequential read first needs a
// withheld block — or -1 if none occurs.
func (n *FileNode) FirstSpanOf(withheld map[string]bool) int64 {
	best := int64(-1)
	lead := n.LeadingEmpty()
	n.walk(func(m *FileNode) {
		// an empty chunk that FOLLOWS data in its parent is opened by a reader
		// when it gets there (needed, at its position); an empty chunk at the
		// position where a reader of its parent starts is skipped by the
		// unmodified reader (see the C06 known finding): optional
		if withheld[m.Cid.KeyString()] && (m.End > m.Start || !lead[m.Cid.KeyString()]) {
			if best < 0 || m.Start < best {
				best = m.Start
			}
		}
	})
	return best
}

// EmptyStarts returns the byte positions at which withheld LEADING empty chunks
// occur (a reader may or may not open such a block when it gets there).
func (n *FileNode) EmptyStarts(withheld map[string]bool) []int64 {
	var out []int64
	lead := n.LeadingEmpty()
	n.walk(func(m *FileNode) {
		if withheld[m.Cid.KeyString()] && m.End == m.Start && lead[m.Cid.KeyString()] {
			out = append(out, m.Start)
		}
	})
	return out
}

// LeadingEmpty reports, per block (KeyString), whether every occurrence of it
// is an empty-span child preceded, within its parent, only by empty-span
// siblings (i.e. it sits at the position where a reader of that parent starts).
func (n *FileNode) LeadingEmpty() map[string]bool {
	out := map[string]bool{}
	var rec func(m *FileNode)
	rec = func(m *FileNode) {
		leading := true
		for _, c := range m.Children {
			k := c.Cid.KeyString()
			isLead := leading && c.End == c.Start
			if prev, seen := out[k]; !seen {
				out[k] = isLead
			} else {
				out[k] = prev && isLead
			}
			if c.End > c.Start {
				leading = false
			}
			rec(c)
		}
	}
	rec(n)
	return out
}

// EmptySpan reports, per block (KeyString), whether every occurrence of it has
// an empty byte span (zero-length chunks and subtrees made of them).
func (n *FileNode) EmptySpan() map[string]bool {
	out := map[string]bool{}
	n.walk(func(m *FileNode) {
		k := m.Cid.KeyString()
		if m.End > m.Start {
			out[k] = false
		} else if _, seen := out[k]; !seen {
			out[k] = true
		}
	})
	return out
}

// CidSet is a helper turning a cid slice into a KeyString set.
func CidSet(cs []cid.Cid) map[string]bool {
	out := map[string]bool{}
	for _, c := range cs {
		out[c.KeyString()] = true
	}
	return out
}
