// Package model holds the boring reference models. Nothing here goes through
// the code under test: dag-pb blocks are parsed with a local protowire loop,
// UnixFS Data with the gogo-generated reference codec from boxo.
package model

import (
	"fmt"

	"github.com/gogo/protobuf/proto"
	pb "github.com/ipfs/boxo/ipld/unixfs/pb"
	"github.com/ipfs/go-cid"
	"google.golang.org/protobuf/encoding/protowire"

	"verif/harness/store"
)

// PBLink is a decoded dag-pb link.
type PBLink struct {
	Cid      cid.Cid
	Name     string
	HasName  bool
	Tsize    uint64
	HasTsize bool
}

// PBNode is a decoded dag-pb node.
type PBNode struct {
	Data    []byte
	HasData bool
	Links   []PBLink
}

// DecodePB parses a dag-pb block.
func DecodePB(b []byte) (*PBNode, error) {
	n := &PBNode{}
	for len(b) > 0 {
		num, typ, l := protowire.ConsumeTag(b)
		if l < 0 {
			return nil, fmt.Errorf("dag-pb: bad tag")
		}
		b = b[l:]
		if typ != protowire.BytesType {
			return nil, fmt.Errorf("dag-pb: unexpected wire type %d for field %d", typ, num)
		}
		v, l := protowire.ConsumeBytes(b)
		if l < 0 {
			return nil, fmt.Errorf("dag-pb: bad bytes")
		}
		b = b[l:]
		switch num {
		case 1:
			n.Data, n.HasData = append([]byte{}, v...), true
		case 2:
			lk, err := decodeLink(v)
			if err != nil {
				return nil, err
			}
			n.Links = append(n.Links, lk)
		default:
			return nil, fmt.Errorf("dag-pb: unknown field %d", num)
		}
	}
	return n, nil
}

func decodeLink(b []byte) (PBLink, error) {
	var lk PBLink
	for len(b) > 0 {
		num, typ, l := protowire.ConsumeTag(b)
		if l < 0 {
			return lk, fmt.Errorf("dag-pb link: bad tag")
		}
		b = b[l:]
		switch {
		case num == 1 && typ == protowire.BytesType:
			v, l := protowire.ConsumeBytes(b)
			if l < 0 {
				return lk, fmt.Errorf("dag-pb link: bad hash")
			}
			b = b[l:]
			c, err := cid.Cast(v)
			if err != nil {
				return lk, err
			}
			lk.Cid = c
		case num == 2 && typ == protowire.BytesType:
			v, l := protowire.ConsumeBytes(b)
			if l < 0 {
				return lk, fmt.Errorf("dag-pb link: bad name")
			}
			b = b[l:]
			lk.Name, lk.HasName = string(v), true
		case num == 3 && typ == protowire.VarintType:
			v, l := protowire.ConsumeVarint(b)
			if l < 0 {
				return lk, fmt.Errorf("dag-pb link: bad tsize")
			}
			b = b[l:]
			lk.Tsize, lk.HasTsize = v, true
		default:
			return lk, fmt.Errorf("dag-pb link: unexpected field %d/%d", num, typ)
		}
	}
	return lk, nil
}

// EncodePB writes a dag-pb block in canonical field order (links, then data),
// with links in the order given (callers sort when they want canonical form).
func EncodePB(n *PBNode) []byte {
	var out []byte
	for _, l := range n.Links {
		var lb []byte
		if l.Cid.Defined() {
			lb = protowire.AppendTag(lb, 1, protowire.BytesType)
			lb = protowire.AppendBytes(lb, l.Cid.Bytes())
		}
		if l.HasName {
			lb = protowire.AppendTag(lb, 2, protowire.BytesType)
			lb = protowire.AppendBytes(lb, []byte(l.Name))
		}
		if l.HasTsize {
			lb = protowire.AppendTag(lb, 3, protowire.VarintType)
			lb = protowire.AppendVarint(lb, l.Tsize)
		}
		out = protowire.AppendTag(out, 2, protowire.BytesType)
		out = protowire.AppendBytes(out, lb)
	}
	if n.HasData {
		out = protowire.AppendTag(out, 1, protowire.BytesType)
		out = protowire.AppendBytes(out, n.Data)
	}
	return out
}

// Block is one stored block decoded by the model.
type Block struct {
	Cid   cid.Cid
	Bytes []byte
	IsRaw bool
	PB    *PBNode  // nil for raw blocks
	FS    *pb.Data // nil when absent or undecodable
}

// Load decodes the stored block c.
func Load(s *store.Store, c cid.Cid) (*Block, error) {
	b, ok := s.Raw(c)
	if !ok {
		return nil, fmt.Errorf("model: block %s not stored", c)
	}
	blk := &Block{Cid: c, Bytes: b}
	if c.Prefix().Codec == cid.Raw {
		blk.IsRaw = true
		return blk, nil
	}
	if c.Prefix().Codec != cid.DagProtobuf {
		return nil, fmt.Errorf("model: unexpected codec %x", c.Prefix().Codec)
	}
	n, err := DecodePB(b)
	if err != nil {
		return nil, err
	}
	blk.PB = n
	if n.HasData {
		var d pb.Data
		if err := proto.Unmarshal(n.Data, &d); err == nil {
			blk.FS = &d
		}
	}
	return blk, nil
}

// TreeSum is the cumulative size of the tree expansion below c: encoded length
// of the block plus TreeSum of every link target (counted per occurrence).
func TreeSum(s *store.Store, c cid.Cid) (uint64, error) {
	memo := map[string]uint64{}
	var rec func(c cid.Cid) (uint64, error)
	rec = func(c cid.Cid) (uint64, error) {
		if v, ok := memo[c.KeyString()]; ok {
			return v, nil
		}
		blk, err := Load(s, c)
		if err != nil {
			return 0, err
		}
		sum := uint64(len(blk.Bytes))
		if blk.PB != nil {
			for _, l := range blk.PB.Links {
				v, err := rec(l.Cid)
				if err != nil {
					return 0, err
				}
				sum += v
			}
		}
		memo[c.KeyString()] = sum
		return sum, nil
	}
	return rec(c)
}
