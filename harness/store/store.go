// Package store is the storage seam: an in-memory block store behind
// LinkSystem.StorageReadOpener / StorageWriteOpener that logs every request,
// snapshots commits and injects faults decided by the harness.
package store

import (
	"bytes"
	"context"
	"errors"
	"fmt"
	"github.com/ipld/go-ipld-prime/traversal"
	"io"
	"sort"
	"sync"

	"github.com/ipfs/boxo/ipld/merkledag"
	blocks "github.com/ipfs/go-block-format"
	"github.com/ipfs/go-cid"
	format "github.com/ipfs/go-ipld-format"
	"github.com/ipld/go-ipld-prime"
	"github.com/ipld/go-ipld-prime/datamodel"
	"github.com/ipld/go-ipld-prime/linking"
	cidlink "github.com/ipld/go-ipld-prime/linking/cid"
)

// ErrKind selects the error a withheld block produces.
type ErrKind int

const (
	NotFound      ErrKind = iota + 1 // implements NotFound() bool
	IOError                          // opaque
	UnexpectedEOF                    // io.ErrUnexpectedEOF, unwrapped (a short read of the block)
	SkipMe                           // traversal.SkipMe{}: go-ipld-prime's "block not on hand, leave it out" answer of a storage opener
)

// AllKinds lists the load-error kinds the fault checks inject.
var AllKinds = []ErrKind{NotFound, IOError, UnexpectedEOF, SkipMe}

type notFoundErr struct{ c cid.Cid }

func (e notFoundErr) Error() string  { return "verif: block not found: " + e.c.String() }
func (e notFoundErr) NotFound() bool { return true }
func (e notFoundErr) Is(t error) bool {
	_, ok := t.(notFoundErr)
	return ok
}

// ErrIO is the opaque injected error.
var ErrIO = errors.New("verif: injected I/O error")

// ErrWrite is the injected write-side error.
var ErrWrite = errors.New("verif: injected write error")

// IsInjected reports whether err (or anything it wraps / mentions) is one of
// the injected errors.
func IsInjected(err error) bool {
	if err == nil {
		return false
	}
	var nf notFoundErr
	if errors.Is(err, ErrIO) || errors.As(err, &nf) || errors.Is(err, ErrWrite) || errors.Is(err, io.ErrUnexpectedEOF) {
		return true
	}
	var sk traversal.SkipMe
	if errors.As(err, &sk) {
		return true
	}
	s := err.Error()
	return bytes.Contains([]byte(s), []byte("verif: "))
}

func MakeErr(k ErrKind, c cid.Cid) error {
	switch k {
	case NotFound:
		return notFoundErr{c}
	case UnexpectedEOF:
		return io.ErrUnexpectedEOF
	case SkipMe:
		return traversal.SkipMe{}
	}
	return fmt.Errorf("%w (%s)", ErrIO, c)
}

// WriteEvent is one entry of the write log.
type WriteEvent struct {
	Op  string // "open" | "write" | "commit"
	Seq int    // index of the write-open this event belongs to
	Cid cid.Cid
	N   int
}

// Store is the in-memory block store.
type Store struct {
	mu     sync.Mutex
	blocks map[string][]byte
	order  []cid.Cid // commit order (first commit of each cid)

	ReadLog  []cid.Cid
	WriteLog []WriteEvent
	opens    int

	// IgnoreCtx: serve loads even under a finished context (a local store
	// that never looks at it); default: honour it, as a network-backed one does
	IgnoreCtx bool
	// Corrupt: blocks served with altered bytes (only a link system that
	// verifies what it loads -- Verify -- notices)
	Corrupt map[string]bool
	// Verify: LinkSystem() leaves TrustedStorage off, so every load is checked
	// against its CID as cidlink.DefaultLinkSystem() does
	Verify bool
	// Missing: static set of withheld blocks.
	Missing map[string]ErrKind
	// OnRead, when set, is asked before every read (after Missing); a non-nil
	// error is returned to the caller.
	OnRead func(c cid.Cid, nth int) error
	// OnOpen / OnWrite / OnCommit inject write-side faults. nth counts calls of
	// that kind from 0.
	OnOpen   func(nth int) error
	OnWrite  func(nth int) error
	OnCommit func(nth int, c cid.Cid) error
	// AfterCommit is called (outside the lock) after every successful commit.
	AfterCommit func(c cid.Cid)
	nWrites     int
	nCommits    int
}

func New() *Store {
	return &Store{blocks: map[string][]byte{}, Missing: map[string]ErrKind{}}
}

func key(c cid.Cid) string { return string(c.Hash()) } // multihash: v0/v1 and codec agnostic

// Put stores raw bytes under c without logging.
func (s *Store) Put(c cid.Cid, b []byte) {
	s.mu.Lock()
	defer s.mu.Unlock()
	if _, ok := s.blocks[key(c)]; !ok {
		s.order = append(s.order, c)
	}
	s.blocks[key(c)] = append([]byte(nil), b...)
}

func (s *Store) Has(c cid.Cid) bool {
	s.mu.Lock()
	defer s.mu.Unlock()
	_, ok := s.blocks[key(c)]
	return ok
}

// Raw returns the stored bytes, bypassing log and faults.
func (s *Store) Raw(c cid.Cid) ([]byte, bool) {
	s.mu.Lock()
	defer s.mu.Unlock()
	b, ok := s.blocks[key(c)]
	return b, ok
}

// Cids returns all stored cids in first-commit order.
func (s *Store) Cids() []cid.Cid {
	s.mu.Lock()
	defer s.mu.Unlock()
	return append([]cid.Cid(nil), s.order...)
}

func (s *Store) Len() int {
	s.mu.Lock()
	defer s.mu.Unlock()
	return len(s.blocks)
}

// TotalBytes is the sum of stored block lengths.
func (s *Store) TotalBytes() int {
	s.mu.Lock()
	defer s.mu.Unlock()
	n := 0
	for _, b := range s.blocks {
		n += len(b)
	}
	return n
}

// ResetLogs clears the read and write logs and counters (not the blocks).
func (s *Store) ResetLogs() {
	s.mu.Lock()
	defer s.mu.Unlock()
	s.ReadLog, s.WriteLog = nil, nil
	s.opens, s.nWrites, s.nCommits = 0, 0, 0
}

// Reads returns a copy of the read log.
func (s *Store) Reads() []cid.Cid {
	s.mu.Lock()
	defer s.mu.Unlock()
	return append([]cid.Cid(nil), s.ReadLog...)
}

// FirstReads returns the read log with repeated requests removed.
func FirstReads(log []cid.Cid) []cid.Cid {
	seen := map[string]bool{}
	var out []cid.Cid
	for _, c := range log {
		if !seen[key(c)] {
			seen[key(c)] = true
			out = append(out, c)
		}
	}
	return out
}

func (s *Store) read(c cid.Cid) (io.Reader, error) {
	s.mu.Lock()
	nth := len(s.ReadLog)
	s.ReadLog = append(s.ReadLog, c)
	k, miss := s.Missing[key(c)]
	b, ok := s.blocks[key(c)]
	hook := s.OnRead
	s.mu.Unlock()
	if miss {
		if hook != nil {
			hook(c, nth) // a failing load is a load too (scheduling point); its answer stands
		}
		return nil, MakeErr(k, c)
	}
	if hook != nil {
		if err := hook(c, nth); err != nil {
			return nil, err
		}
	}
	if !ok {
		return nil, notFoundErr{c}
	}
	s.mu.Lock()
	bad := s.Corrupt[key(c)]
	s.mu.Unlock()
	if bad {
		// the block is there but its bytes are not what its CID promises
		// (bit rot, a lying peer): one byte more than stored, first byte flipped
		cb := append(append([]byte{}, b...), 0x00)
		cb[0] ^= 0xff
		return bytes.NewReader(cb), nil
	}
	return bytes.NewReader(b), nil
}

type wr struct {
	s   *Store
	seq int
	buf bytes.Buffer
}

func (w *wr) Write(p []byte) (int, error) {
	w.s.mu.Lock()
	nth := w.s.nWrites
	w.s.nWrites++
	w.s.WriteLog = append(w.s.WriteLog, WriteEvent{Op: "write", Seq: w.seq, N: len(p)})
	hook := w.s.OnWrite
	w.s.mu.Unlock()
	if hook != nil {
		if err := hook(nth); err != nil {
			return 0, err
		}
	}
	return w.buf.Write(p)
}

// LinkSystem returns a fresh default link system wired to this store.
func (s *Store) LinkSystem() *ipld.LinkSystem {
	ls := cidlink.DefaultLinkSystem()
	ls.TrustedStorage = !s.Verify
	ls.StorageReadOpener = func(lc linking.LinkContext, l datamodel.Link) (io.Reader, error) {
		cl, ok := l.(cidlink.Link)
		if !ok {
			return nil, fmt.Errorf("verif: not a cid link")
		}
		// like a network- or blockstore-backed source, this one honours the
		// context it is given: a load under a cancelled context fails
		if lc.Ctx != nil && !s.IgnoreCtx {
			if err := lc.Ctx.Err(); err != nil {
				return nil, fmt.Errorf("verif: load of %s under a finished context: %w", cl.Cid, err)
			}
		}
		return s.read(cl.Cid)
	}
	ls.StorageWriteOpener = func(lc linking.LinkContext) (io.Writer, linking.BlockWriteCommitter, error) {
		if lc.Ctx != nil {
			if err := lc.Ctx.Err(); err != nil {
				return nil, nil, fmt.Errorf("verif: write under a finished context: %w", err)
			}
		}
		s.mu.Lock()
		seq := s.opens
		s.opens++
		s.WriteLog = append(s.WriteLog, WriteEvent{Op: "open", Seq: seq})
		hook := s.OnOpen
		s.mu.Unlock()
		if hook != nil {
			if err := hook(seq); err != nil {
				return nil, nil, err
			}
		}
		w := &wr{s: s, seq: seq}
		return w, func(l datamodel.Link) error {
			c := l.(cidlink.Link).Cid
			s.mu.Lock()
			nth := s.nCommits
			s.nCommits++
			hook := s.OnCommit
			s.mu.Unlock()
			if hook != nil {
				if err := hook(nth, c); err != nil {
					return err
				}
			}
			s.mu.Lock()
			if _, ok := s.blocks[key(c)]; !ok {
				s.order = append(s.order, c)
			}
			s.blocks[key(c)] = append([]byte(nil), w.buf.Bytes()...)
			s.WriteLog = append(s.WriteLog, WriteEvent{Op: "commit", Seq: seq, Cid: c, N: w.buf.Len()})
			after := s.AfterCommit
			s.mu.Unlock()
			if after != nil {
				after(c)
			}
			return nil
		}, nil
	}
	return &ls
}

// Commits returns the cids in commit-event order (including re-commits).
func (s *Store) Commits() []cid.Cid {
	s.mu.Lock()
	defer s.mu.Unlock()
	var out []cid.Cid
	for _, e := range s.WriteLog {
		if e.Op == "commit" {
			out = append(out, e.Cid)
		}
	}
	return out
}

// Clone copies the blocks (not logs or hooks).
func (s *Store) Clone() *Store {
	s.mu.Lock()
	defer s.mu.Unlock()
	n := New()
	for k, v := range s.blocks {
		n.blocks[k] = v
	}
	n.order = append(n.order, s.order...)
	return n
}

// Dump returns cid-string -> bytes for replay files (sorted by key on marshal).
func (s *Store) Dump() map[string][]byte {
	s.mu.Lock()
	defer s.mu.Unlock()
	out := map[string][]byte{}
	for _, c := range s.order {
		out[c.String()] = s.blocks[key(c)]
	}
	return out
}

// SortedCidStrings is a helper for canonical set rendering.
func SortedCidStrings(cs []cid.Cid) []string {
	out := make([]string, len(cs))
	for i, c := range cs {
		out[i] = c.String()
	}
	sort.Strings(out)
	return out
}

// ---------------------------------------------------------------------------
// DAGService adapter so that the reference implementation (boxo) writes into
// the same store.

type dagService struct{ s *Store }

// DAGService exposes the store as a go-ipld-format DAGService (used by boxo's
// importers and HAMT). Reads through it are not logged.
func (s *Store) DAGService() format.DAGService { return dagService{s} }

func (d dagService) Get(_ context.Context, c cid.Cid) (format.Node, error) {
	b, ok := d.s.Raw(c)
	if !ok {
		return nil, format.ErrNotFound{Cid: c}
	}
	blk, err := blocks.NewBlockWithCid(b, c)
	if err != nil {
		return nil, err
	}
	if c.Prefix().Codec == cid.Raw {
		return merkledag.DecodeRawBlock(blk)
	}
	return merkledag.DecodeProtobufBlock(blk)
}

func (d dagService) GetMany(ctx context.Context, cs []cid.Cid) <-chan *format.NodeOption {
	ch := make(chan *format.NodeOption, len(cs))
	for _, c := range cs {
		n, err := d.Get(ctx, c)
		ch <- &format.NodeOption{Node: n, Err: err}
	}
	close(ch)
	return ch
}

func (d dagService) Add(_ context.Context, n format.Node) error {
	d.s.Put(n.Cid(), n.RawData())
	return nil
}

func (d dagService) AddMany(ctx context.Context, ns []format.Node) error {
	for _, n := range ns {
		d.Add(ctx, n)
	}
	return nil
}

func (d dagService) Remove(context.Context, cid.Cid) error       { return nil }
func (d dagService) RemoveMany(context.Context, []cid.Cid) error { return nil }
