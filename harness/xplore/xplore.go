// Package xplore is the stateless deviation-bounded explorer: an execution is
// determined by its sequence of choices; Explore replays a prefix, answers 0
// (the default) afterwards, and recurses on every alternative the deviation
// budget allows.
package xplore

import (
	"fmt"
	"time"
)

// Truncated is panicked out of a body when an execution exceeds its horizon.
type Truncated struct{}

// Diverged is a hard error: a replayed prefix met a different choice point.
type Diverged struct{ Msg string }

func (d Diverged) Error() string { return "xplore: replay diverged: " + d.Msg }

// Point is one recorded choice point.
type Point struct {
	N     int
	Label string
	Free  bool // alternatives at this point cost no deviation
}

// Ctx is handed to the body of one execution.
type Ctx struct {
	prefix  []int
	prefLbl []string
	Choices []int
	Points  []Point
	horizon int
}

// Choose returns the environment's answer in [0,n). n<=1 is not a choice
// point. Answer 0 is the default.
func (c *Ctx) Choose(n int, label string) int { return c.choose(n, label, false) }

// ChooseFree is a choice point whose alternatives do not consume deviation
// budget (e.g. which thread runs when the current one is blocked).
func (c *Ctx) ChooseFree(n int, label string) int { return c.choose(n, label, true) }

func (c *Ctx) choose(n int, label string, free bool) int {
	if n <= 1 {
		return 0
	}
	i := len(c.Choices)
	if i >= c.horizon {
		panic(Truncated{})
	}
	v := 0
	if i < len(c.prefix) {
		v = c.prefix[i]
		if v >= n {
			panic(Diverged{fmt.Sprintf("choice %d: prefix wants %d of %d at %q", i, v, n, label)})
		}
		if i < len(c.prefLbl) && c.prefLbl[i] != "" && c.prefLbl[i] != label {
			panic(Diverged{fmt.Sprintf("choice %d: label %q, recorded %q", i, label, c.prefLbl[i])})
		}
	}
	c.Choices = append(c.Choices, v)
	c.Points = append(c.Points, Point{n, label, free})
	return v
}

// Depth is the number of choice points met so far.
func (c *Ctx) Depth() int { return len(c.Choices) }

// Result of one execution.
type Result struct {
	Choices   []int
	Points    []Point
	Truncated bool
	Obs       string
	Panic     any
}

// Stats of an exploration.
type Stats struct {
	Executions   int
	ChoicePoints int
	MaxDepth     int
	Truncated    int
	Capped       bool
	Replayed     int
}

// Explorer explores all executions with at most Bound deviations.
type Explorer struct {
	Bound    int
	Horizon  int // max choice points per execution (default 10000)
	MaxExecs int // 0 = unlimited; hitting it sets Stats.Capped
	// Deadline: no execution is started after it (zero = none); passing it sets
	// Stats.Capped. A budget, never an oracle: what was explored is reported,
	// the run is not called exhaustive.
	Deadline time.Time
	Replay   int // number of leading executions replayed twice for the determinism proof
	Stats    Stats
	// OnDiverge is called when the determinism replay of an execution differs.
	OnDiverge func(choices []int, a, b string)
}

// RunOne executes body once under the given prefix.
func RunOne(prefix []int, labels []string, horizon int, body func(*Ctx) string) (res Result) {
	if horizon <= 0 {
		horizon = 10000
	}
	c := &Ctx{prefix: prefix, prefLbl: labels, horizon: horizon}
	func() {
		defer func() {
			if v := recover(); v != nil {
				switch x := v.(type) {
				case Truncated:
					res.Truncated = true
				case Diverged:
					panic(x)
				default:
					res.Panic = v
				}
			}
		}()
		res.Obs = body(c)
	}()
	res.Choices, res.Points = c.Choices, c.Points
	return res
}

// Explore runs body for every choice sequence within the bound; visit is
// called once per execution.
func (e *Explorer) Explore(body func(*Ctx) string, visit func(Result)) {
	e.explore(nil, nil, 0, body, visit)
}

func (e *Explorer) explore(prefix []int, labels []string, used int, body func(*Ctx) string, visit func(Result)) {
	if e.MaxExecs > 0 && e.Stats.Executions >= e.MaxExecs {
		e.Stats.Capped = true
		return
	}
	if !e.Deadline.IsZero() && e.Stats.Executions > 0 && time.Now().After(e.Deadline) {
		e.Stats.Capped = true
		return
	}
	x := RunOne(prefix, labels, e.Horizon, body)
	e.Stats.Executions++
	e.Stats.ChoicePoints += len(x.Choices)
	if len(x.Choices) > e.Stats.MaxDepth {
		e.Stats.MaxDepth = len(x.Choices)
	}
	if x.Truncated {
		e.Stats.Truncated++
	}
	if e.Stats.Replayed < e.Replay {
		e.Stats.Replayed++
		y := RunOne(x.Choices, nil, e.Horizon, body)
		if y.Obs != x.Obs || len(y.Choices) != len(x.Choices) || y.Truncated != x.Truncated {
			if e.OnDiverge != nil {
				e.OnDiverge(x.Choices, x.Obs, y.Obs)
			} else {
				panic(Diverged{"second run of the same choices observed something else"})
			}
		}
	}
	visit(x)
	lbl := make([]string, len(x.Points))
	for i, p := range x.Points {
		lbl[i] = p.Label
	}
	for i := len(prefix); i < len(x.Points); i++ {
		p := x.Points[i]
		cost := used
		if !p.Free {
			cost++
		}
		if cost > e.Bound {
			continue
		}
		for alt := 1; alt < p.N; alt++ {
			np := append(append([]int{}, x.Choices[:i]...), alt)
			e.explore(np, lbl[:i+1], cost, body, visit)
		}
	}
}

// ExploreParallel is Explore with the level-1 subtrees of the default
// execution distributed over `workers` goroutines. body and visit must be safe
// for concurrent use (fresh state per execution). Stats are merged.
func (e *Explorer) ExploreParallel(workers int, body func(*Ctx) string, visit func(Result)) {
	if workers < 2 {
		e.Explore(body, visit)
		return
	}
	root := RunOne(nil, nil, e.Horizon, body)
	e.Stats.Executions++
	e.Stats.ChoicePoints += len(root.Choices)
	e.Stats.MaxDepth = len(root.Choices)
	if root.Truncated {
		e.Stats.Truncated++
	}
	if e.Replay > 0 {
		y := RunOne(root.Choices, nil, e.Horizon, body)
		e.Stats.Replayed++
		if y.Obs != root.Obs || len(y.Choices) != len(root.Choices) {
			if e.OnDiverge != nil {
				e.OnDiverge(root.Choices, root.Obs, y.Obs)
			} else {
				panic(Diverged{"second run of the same choices observed something else"})
			}
		}
	}
	visit(root)
	lbl := make([]string, len(root.Points))
	for i, p := range root.Points {
		lbl[i] = p.Label
	}
	type branch struct {
		prefix []int
		labels []string
		cost   int
	}
	var branches []branch
	for i, p := range root.Points {
		cost := 0
		if !p.Free {
			cost = 1
		}
		if cost > e.Bound {
			continue
		}
		for alt := 1; alt < p.N; alt++ {
			branches = append(branches, branch{append(append([]int{}, root.Choices[:i]...), alt), lbl[:i+1], cost})
		}
	}
	type res struct{ st Stats }
	out := make(chan Stats, workers)
	next := make(chan branch)
	perWorkerCap := 0
	if e.MaxExecs > 0 {
		perWorkerCap = e.MaxExecs / workers
		if perWorkerCap < 1 {
			perWorkerCap = 1
		}
	}
	for w := 0; w < workers; w++ {
		go func() {
			sub := &Explorer{Bound: e.Bound, Horizon: e.Horizon, MaxExecs: perWorkerCap, Deadline: e.Deadline, OnDiverge: e.OnDiverge}
			for b := range next {
				sub.explore(b.prefix, b.labels, b.cost, body, visit)
			}
			out <- sub.Stats
		}()
	}
	for _, b := range branches {
		next <- b
	}
	close(next)
	for w := 0; w < workers; w++ {
		st := <-out
		e.Stats.Executions += st.Executions
		e.Stats.ChoicePoints += st.ChoicePoints
		e.Stats.Truncated += st.Truncated
		if st.MaxDepth > e.Stats.MaxDepth {
			e.Stats.MaxDepth = st.MaxDepth
		}
		if st.Capped {
			e.Stats.Capped = true
		}
	}
}
