package gen

import (
	"encoding/binary"
	"fmt"
	"math/bits"
	"sync"

	"verif/harness/model"
)

// murmur3 x64-128 constants
const (
	mc1 = 0x87c37b91114253d5
	mc2 = 0x4cf5ad432745937f
)

// modular inverses of odd 64-bit constants
func inv64(a uint64) uint64 {
	x := a // a*x == 1 mod 8 already for odd a
	for i := 0; i < 6; i++ {
		x *= 2 - a*x
	}
	return x
}

var (
	mc1inv  = inv64(mc1)
	mc2inv  = inv64(mc2)
	five    = uint64(5)
	fiveInv = inv64(5)
	fm1inv  = inv64(0xff51afd7ed558ccd)
	fm2inv  = inv64(0xc4ceb9fe1a85ec53)
)

func unxorshift33(x uint64) uint64 {
	// inverse of x ^= x >> 33
	return x ^ (x >> 33)
}

func unfmix(k uint64) uint64 {
	k = unxorshift33(k)
	k *= fm2inv
	k = unxorshift33(k)
	k *= fm1inv
	k = unxorshift33(k)
	return k
}

// keyFor returns the 16-byte key whose murmur3-x64-128 digest (seed 0) has
// first half h1out and second-half mix b (b is the free parameter).
func keyFor(h1out, b uint64) [16]byte {
	// final: h1 += h2 (after fmix); Sum64 = h1
	a := h1out - b // fmix(h1') = a, fmix(h2') = b
	h1p, h2p := unfmix(a), unfmix(b)
	// before: h1 += h2; h2 += h1  =>  (x, y) = (h1+h2, h1+2*h2)
	h2 := h2p - h1p
	h1 := h1p - h2
	// before: h1 ^= len; h2 ^= len (len = 16)
	h1 ^= 16
	h2 ^= 16
	// body, one block, seed 0:
	//   h1 = (rotl(k1',27) + 0)*5 + 0x52dce729   with k1' = rotl(k1*c1,31)*c2   (h1 starts 0, h2 starts 0)
	//   h2 = (rotl(k2',31) + h1)*5 + 0x38495ab5  with k2' = rotl(k2*c2,33)*c1
	t2 := (h2 - 0x38495ab5) * fiveInv
	t2 -= h1
	k2p := bits.RotateLeft64(t2, -31)
	t1 := (h1 - 0x52dce729) * fiveInv
	k1p := bits.RotateLeft64(t1, -27)
	k1 := bits.RotateLeft64(k1p*mc2inv, -31) * mc1inv
	k2 := bits.RotateLeft64(k2p*mc1inv, -33) * mc2inv
	var out [16]byte
	binary.LittleEndian.PutUint64(out[0:8], k1)
	binary.LittleEndian.PutUint64(out[8:16], k2)
	return out
}

var nwhMu sync.Mutex
var nwhCache = map[[2]uint64]string{}

// NameWithHash returns a 16-byte name, free of '/' and NUL and consisting of
// ASCII bytes 0x21..0x7e, whose murmur3-x64-64 hash is exactly h. With it the
// bucket of a name is controlled at every HAMT level.
func NameWithHash(h uint64) string { return nthNameWithHash(h, 0) }

// NameWithHashAlt returns a second, different name with the same 64-bit hash
// (a full collision).
func NameWithHashAlt(h uint64) string { return nthNameWithHash(h, 1) }

func nthNameWithHash(h uint64, n int) string {
	ck := [2]uint64{h, uint64(n)}
	nwhMu.Lock()
	if v, ok := nwhCache[ck]; ok {
		nwhMu.Unlock()
		return v
	}
	nwhMu.Unlock()
	found := 0
	for b := uint64(1); ; b++ {
		k := keyFor(h, b*0x9e3779b97f4a7c15)
		ok := true
		for _, c := range k {
			if c < 0x21 || c > 0x7e || c == '/' {
				ok = false
				break
			}
		}
		if !ok {
			continue
		}
		name := string(k[:])
		if model.Hash64(name) != h {
			panic(fmt.Sprintf("murmur3 inversion is wrong: %x != %x", model.Hash64(name), h))
		}
		nwhMu.Lock()
		nwhCache[[2]uint64{h, uint64(found)}] = name
		nwhMu.Unlock()
		if found == n {
			return name
		}
		found++
	}
}

// ExtremeUniverse: names whose hashes are engineered — all-zero and all-one
// hashes (bucket 0 / the last bucket at every level of every fanout), pairs
// agreeing in their top 60, 56 and 50 bits (deepest reachable levels of fanout
// 8/16, 256 and 1024), a low bucket (< 0x010) at fanout 512/1024.
func ExtremeUniverse() []string {
	base := uint64(0xA5C3_96E1_7B2D_4F80)
	return []string{
		NameWithHash(0),
		NameWithHash(^uint64(0)),
		NameWithHash(base),
		NameWithHash(base ^ 0x8),            // agrees with base in the top 60 bits
		NameWithHash(base ^ 0x80),           // top 56 bits
		NameWithHash(base ^ 0x2000),         // top 50 bits
		NameWithHash(0x0140_0000_0000_0000), // bucket 0x005 at fanout 1024, 0x002 at 512
		NameWithHash(0x0000_0000_0000_0001), // shares 63 bits with the all-zero hash
	}
}

// CollidingPair returns two different names with the same 64-bit hash: no HAMT
// of any fanout can hold both.
func CollidingPair() (string, string) {
	const h = 0x5EED_C011_1DE0_0001
	return NameWithHash(h), NameWithHashAlt(h)
}
