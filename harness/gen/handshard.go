package gen

import (
	"fmt"

	"github.com/ipfs/go-cid"
	"google.golang.org/protobuf/encoding/protowire"

	"verif/harness/model"
	"verif/harness/store"
)

// HandShard is a hand-written (model-encoded) HAMT shard: decodable shards in
// arrangements neither writer of this repository emits, in particular child
// shards whose fanout (hence link-name prefix width) differs from the parent's.
// Entries are NOT placed by their hash: these DAGs serve walks of the whole
// directory (length, iteration, preload), not lookups.
type HandShard struct {
	Fanout int
	Links  []HandShardLink
	// ZeroBitfield: the bitfield is present but has no bit set although the
	// node has links (walks of the whole directory never consult it)
	ZeroBitfield bool
}

// HandShardLink is a value link (Name != "") or a child shard link.
type HandShardLink struct {
	Bucket int
	Name   string
	Child  *HandShard
}

// Build writes the shard DAG (and a leaf block per entry) into s.
func (h HandShard) Build(s *store.Store) (cid.Cid, uint64) {
	pad := model.PadLen(h.Fanout)
	bf := make([]byte, h.Fanout/8)
	var links []model.PBLink
	total := uint64(0)
	for _, l := range h.Links {
		bf[len(bf)-1-l.Bucket/8] |= 1 << uint(l.Bucket%8)
		prefix := fmt.Sprintf("%0*X", pad, l.Bucket)
		if l.Child != nil {
			c, sz := l.Child.Build(s)
			links = append(links, model.PBLink{Cid: c, Name: prefix, HasName: true, Tsize: sz, HasTsize: true})
			total += sz
		} else {
			leaf := Leaf(s, l.Name)
			links = append(links, model.PBLink{Cid: leaf.Cid, Name: prefix + l.Name, HasName: true, Tsize: leaf.Tsize, HasTsize: true})
			total += leaf.Tsize
		}
	}
	if h.ZeroBitfield {
		bf = make([]byte, h.Fanout/8)
	}
	for len(bf) > 1 && bf[0] == 0 {
		bf = bf[1:]
	}
	d := []byte{0x08, 0x05, 0x12}
	d = protowire.AppendBytes(d, bf)
	d = append(d, 0x28, 0x22, 0x30)
	d = protowire.AppendVarint(d, uint64(h.Fanout))
	blk := model.EncodePB(&model.PBNode{Data: d, HasData: true, Links: links})
	c, _ := V1PB.Sum(blk)
	s.Put(c, blk)
	return c, total + uint64(len(blk))
}

func hv(b int, name string) HandShardLink        { return HandShardLink{Bucket: b, Name: name} }
func hc(b int, child HandShard) HandShardLink    { return HandShardLink{Bucket: b, Child: &child} }
func hs(f int, links ...HandShardLink) HandShard { return HandShard{Fanout: f, Links: links} }

// HandShards: labelled mixed-fanout directories. Prefix widths: 8/16 -> 1,
// 32..256 -> 2, 512/1024 -> 3.
func HandShards() map[string]HandShard {
	return map[string]HandShard{
		// narrower child holding a one-character and a two-character name: with
		// the parent's width (2) "3!" would look like a child-shard link
		"mixed 256>16 short-names": hs(256, hv(0x10, "zz"), hc(0xA5, hs(16, hv(3, "!"), hv(7, "ab"), hv(9, "abc")))),
		// wider child with its own sub-shard: with the parent's width (1) the
		// grandchild link "0B" would look like a value link
		"mixed 16>256>256":  hs(16, hv(1, "top"), hc(3, hs(256, hv(0x0A, "q"), hc(0x0B, hs(256, hv(0x11, "x"), hv(0xFE, "yy")))))),
		"mixed 8>1024>1024": hs(8, hc(5, hs(1024, hv(0x00A, "1k"), hc(0x3FF, hs(1024, hv(0x001, "v"), hv(0x002, "w")))))),
		"mixed 1024>8>64":   hs(1024, hv(0x005, "a"), hc(0x200, hs(8, hv(1, "b"), hc(6, hs(64, hv(0x3F, "c"), hv(0x01, "dd")))))),
		// bitfield without any bit although links are present
		"irregular zero-bitfield root":  {Fanout: 16, ZeroBitfield: true, Links: []HandShardLink{hv(1, "top"), hc(3, hs(16, hv(0xA, "q"), hc(0xB, hs(16, hv(1, "x")))))}},
		"irregular zero-bitfield inner": hs(16, hv(1, "top"), hc(3, HandShard{Fanout: 16, ZeroBitfield: true, Links: []HandShardLink{hv(0xA, "q"), hc(0xB, hs(16, hv(1, "x")))}})),
		// empty child shards (no writer emits them; a decodable block all the same)
		// next to ordinary ones
		"irregular empty-child": hs(16, hv(1, "top"), hc(3, hs(16)), hc(5, hs(16, hv(2, "x"), hv(9, "y"))), hc(7, hs(16)), hc(9, hs(16, hv(1, "z"))), hc(12, hs(16))),
		// two child shards filed under one slot (dag-pb keeps links with equal
		// names; both subtrees belong to the directory)
		"irregular duplicate-slot": hs(16, hv(1, "top"), hc(3, hs(16, hv(2, "x"))), hc(3, hs(16, hv(4, "y"), hc(6, hs(16, hv(1, "deep"))))), hc(5, hs(16, hv(9, "z")))),
		// uniform, for comparison (same writer)
		"uniform 16>16": hs(16, hv(1, "top"), hc(3, hs(16, hv(0xA, "q"), hc(0xB, hs(16, hv(1, "x")))))),
	}
}

// HandShardLabels in a fixed order.
func HandShardLabels() []string {
	var out []string
	for k := range HandShards() {
		out = append(out, k)
	}
	sortStrings(out)
	return out
}

// MixedHamt writes a well-formed HAMT (every entry in the bucket its hash
// selects) whose level ℓ has fanout fanouts[min(ℓ, len-1)]: hash bits are
// consumed level by level, each level taking log2 of ITS fanout. Readers that
// size each shard from its own block (this library, the reference reader) read
// such directories; neither writer emits them. Choose fanouts with the same
// link-name prefix width (8/16, 32..256, 512/1024): the iterator of this
// library refuses a width change.
func MixedHamt(s *store.Store, es []DirEntry, fanouts []int) (cid.Cid, uint64, error) {
	type item struct {
		e DirEntry
		h uint64
	}
	var items []item
	for _, e := range es {
		items = append(items, item{e, model.Hash64(e.Name)})
	}
	var build func(level, consumed int, its []item) (cid.Cid, uint64, error)
	build = func(level, consumed int, its []item) (cid.Cid, uint64, error) {
		f := fanouts[len(fanouts)-1]
		if level < len(fanouts) {
			f = fanouts[level]
		}
		w := 0
		for 1<<uint(w) < f {
			w++
		}
		if consumed+w > 64 {
			return cid.Undef, 0, fmt.Errorf("names collide in every hash bit")
		}
		pad := model.PadLen(f)
		groups := map[int][]item{}
		for _, it := range its {
			b := int((it.h >> uint(64-consumed-w)) & (uint64(f) - 1))
			groups[b] = append(groups[b], it)
		}
		bf := make([]byte, f/8)
		var links []model.PBLink
		total := uint64(0)
		for b := 0; b < f; b++ {
			g := groups[b]
			if len(g) == 0 {
				continue
			}
			bf[len(bf)-1-b/8] |= 1 << uint(b%8)
			prefix := fmt.Sprintf("%0*X", pad, b)
			if len(g) == 1 {
				links = append(links, model.PBLink{Cid: g[0].e.Cid, Name: prefix + g[0].e.Name, HasName: true, Tsize: g[0].e.Tsize, HasTsize: true})
				total += g[0].e.Tsize
				continue
			}
			c, sz, err := build(level+1, consumed+w, g)
			if err != nil {
				return cid.Undef, 0, err
			}
			links = append(links, model.PBLink{Cid: c, Name: prefix, HasName: true, Tsize: sz, HasTsize: true})
			total += sz
		}
		for len(bf) > 1 && bf[0] == 0 {
			bf = bf[1:]
		}
		d := []byte{0x08, 0x05, 0x12}
		d = protowire.AppendBytes(d, bf)
		d = append(d, 0x28, 0x22, 0x30)
		d = protowire.AppendVarint(d, uint64(f))
		blk := model.EncodePB(&model.PBNode{Data: d, HasData: true, Links: links})
		c, _ := V1PB.Sum(blk)
		s.Put(c, blk)
		return c, total + uint64(len(blk)), nil
	}
	return build(0, 0, items)
}
