package gen

import (
	"fmt"

	"github.com/ipfs/go-cid"
	"google.golang.org/protobuf/encoding/protowire"

	"verif/harness/model"
	"verif/harness/store"
)

// HandShard is a hand-written (model-encoded) HAMT shard: decodable shards in
// arrangements neither writer of this repository emits, in particular child
// shards whose fanout (hence link-name prefix width) differs from the parent's.
// Entries are NOT placed by their hash: these DAGs serve walks of the whole
// directory (length, iteration, preload), not lookups.
type HandShard struct {
	Fanout int
	Links  []HandShardLink
}

// HandShardLink is a value link (Name != "") or a child shard link.
type HandShardLink struct {
	Bucket int
	Name   string
	Child  *HandShard
}

// Build writes the shard DAG (and a leaf block per entry) into s.
func (h HandShard) Build(s *store.Store) (cid.Cid, uint64) {
	pad := model.PadLen(h.Fanout)
	bf := make([]byte, h.Fanout/8)
	var links []model.PBLink
	total := uint64(0)
	for _, l := range h.Links {
		bf[len(bf)-1-l.Bucket/8] |= 1 << uint(l.Bucket%8)
		prefix := fmt.Sprintf("%0*X", pad, l.Bucket)
		if l.Child != nil {
			c, sz := l.Child.Build(s)
			links = append(links, model.PBLink{Cid: c, Name: prefix, HasName: true, Tsize: sz, HasTsize: true})
			total += sz
		} else {
			leaf := Leaf(s, l.Name)
			links = append(links, model.PBLink{Cid: leaf.Cid, Name: prefix + l.Name, HasName: true, Tsize: leaf.Tsize, HasTsize: true})
			total += leaf.Tsize
		}
	}
	for len(bf) > 1 && bf[0] == 0 {
		bf = bf[1:]
	}
	d := []byte{0x08, 0x05, 0x12}
	d = protowire.AppendBytes(d, bf)
	d = append(d, 0x28, 0x22, 0x30)
	d = protowire.AppendVarint(d, uint64(h.Fanout))
	blk := model.EncodePB(&model.PBNode{Data: d, HasData: true, Links: links})
	c, _ := V1PB.Sum(blk)
	s.Put(c, blk)
	return c, total + uint64(len(blk))
}

func hv(b int, name string) HandShardLink        { return HandShardLink{Bucket: b, Name: name} }
func hc(b int, child HandShard) HandShardLink    { return HandShardLink{Bucket: b, Child: &child} }
func hs(f int, links ...HandShardLink) HandShard { return HandShard{Fanout: f, Links: links} }

// HandShards: labelled mixed-fanout directories. Prefix widths: 8/16 -> 1,
// 32..256 -> 2, 512/1024 -> 3.
func HandShards() map[string]HandShard {
	return map[string]HandShard{
		// narrower child holding a one-character and a two-character name: with
		// the parent's width (2) "3!" would look like a child-shard link
		"mixed 256>16 short-names": hs(256, hv(0x10, "zz"), hc(0xA5, hs(16, hv(3, "!"), hv(7, "ab"), hv(9, "abc")))),
		// wider child with its own sub-shard: with the parent's width (1) the
		// grandchild link "0B" would look like a value link
		"mixed 16>256>256":  hs(16, hv(1, "top"), hc(3, hs(256, hv(0x0A, "q"), hc(0x0B, hs(256, hv(0x11, "x"), hv(0xFE, "yy")))))),
		"mixed 8>1024>1024": hs(8, hc(5, hs(1024, hv(0x00A, "1k"), hc(0x3FF, hs(1024, hv(0x001, "v"), hv(0x002, "w")))))),
		"mixed 1024>8>64":   hs(1024, hv(0x005, "a"), hc(0x200, hs(8, hv(1, "b"), hc(6, hs(64, hv(0x3F, "c"), hv(0x01, "dd")))))),
		// uniform, for comparison (same writer)
		"uniform 16>16": hs(16, hv(1, "top"), hc(3, hs(16, hv(0xA, "q"), hc(0xB, hs(16, hv(1, "x")))))),
	}
}

// HandShardLabels in a fixed order.
func HandShardLabels() []string {
	var out []string
	for k := range HandShards() {
		out = append(out, k)
	}
	sortStrings(out)
	return out
}
