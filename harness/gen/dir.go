package gen

import (
	"context"
	"fmt"

	"github.com/ipfs/boxo/ipld/merkledag"
	"github.com/ipfs/boxo/ipld/unixfs/hamt"
	"github.com/ipfs/go-cid"
	format "github.com/ipfs/go-ipld-format"
	"github.com/ipfs/go-unixfsnode/data/builder"
	dagpb "github.com/ipld/go-codec-dagpb"
	"github.com/ipld/go-ipld-prime"
	cidlink "github.com/ipld/go-ipld-prime/linking/cid"
	mh "github.com/multiformats/go-multihash"
	"google.golang.org/protobuf/encoding/protowire"

	"verif/harness/model"
	"verif/harness/store"
)

// DirEntry is an entry handed to a directory builder.
type DirEntry struct {
	Name  string
	Cid   cid.Cid
	Tsize uint64
}

// V1Raw / V1PB are the cid builders both writers use.
var V1Raw = cid.V1Builder{Codec: cid.Raw, MhType: mh.SHA2_256}
var V1PB = cid.V1Builder{Codec: cid.DagProtobuf, MhType: mh.SHA2_256}

// Leaf stores a raw leaf whose content is "leaf:"+name and returns its entry.
func Leaf(s *store.Store, name string) DirEntry {
	b := []byte("leaf:" + name)
	c, err := V1Raw.Sum(b)
	if err != nil {
		panic(err)
	}
	s.Put(c, b)
	return DirEntry{Name: name, Cid: c, Tsize: uint64(len(b))}
}

// Leaves stores one leaf per name.
func Leaves(s *store.Store, names []string) []DirEntry {
	out := make([]DirEntry, len(names))
	for i, n := range names {
		out[i] = Leaf(s, n)
	}
	return out
}

// PBLinks converts entries to the builder's input type.
func PBLinks(es []DirEntry) ([]dagpb.PBLink, error) {
	out := make([]dagpb.PBLink, 0, len(es))
	for _, e := range es {
		l, err := builder.BuildUnixFSDirectoryEntry(e.Name, int64(e.Tsize), cidlink.Link{Cid: e.Cid})
		if err != nil {
			return nil, err
		}
		out = append(out, l)
	}
	return out, nil
}

func linkCid(l ipld.Link, sz uint64, err error) (cid.Cid, uint64, error) {
	if err != nil {
		return cid.Undef, 0, err
	}
	if l == nil {
		return cid.Undef, 0, fmt.Errorf("nil link with nil error")
	}
	return l.(cidlink.Link).Cid, sz, nil
}

// OursSharded builds a sharded directory with the library.
func OursSharded(s *store.Store, fanout int, es []DirEntry) (cid.Cid, uint64, error) {
	return OursShardedHasher(s, fanout, mh.MURMUR3X64_64, es)
}

// OursShardedHasher: the sharded-directory builder with another name hasher
// (readers only accept murmur3; the builder takes any registered multihash).
func OursShardedHasher(s *store.Store, fanout int, hasher uint64, es []DirEntry) (cid.Cid, uint64, error) {
	ls, err := PBLinks(es)
	if err != nil {
		return cid.Undef, 0, err
	}
	return linkCid(builder.BuildUnixFSShardedDirectory(fanout, hasher, ls, s.LinkSystem()))
}

// OursDir builds with the auto-selecting plain/sharded builder.
func OursDir(s *store.Store, es []DirEntry) (cid.Cid, uint64, error) {
	ls, err := PBLinks(es)
	if err != nil {
		return cid.Undef, 0, err
	}
	return linkCid(builder.BuildUnixFSDirectory(ls, s.LinkSystem()))
}

// RefShard builds the reference HAMT holding the entries (inserted in the
// given order) and stores all its blocks in s.
func RefShard(s *store.Store, fanout int, es []DirEntry) (cid.Cid, uint64, error) {
	ctx := context.Background()
	ds := s.DAGService()
	sh, err := hamt.NewShard(ds, fanout)
	if err != nil {
		return cid.Undef, 0, err
	}
	sh.SetCidBuilder(V1PB)
	for _, e := range es {
		if err := sh.SetLink(ctx, e.Name, &format.Link{Name: e.Name, Size: e.Tsize, Cid: e.Cid}); err != nil {
			return cid.Undef, 0, err
		}
	}
	return RefShardNode(s, sh)
}

// RefShardNode serialises a reference shard into s.
func RefShardNode(s *store.Store, sh *hamt.Shard) (cid.Cid, uint64, error) {
	nd, err := sh.Node()
	if err != nil {
		return cid.Undef, 0, err
	}
	if err := s.DAGService().Add(context.Background(), nd); err != nil {
		return cid.Undef, 0, err
	}
	sz, err := nd.Size()
	if err != nil {
		return cid.Undef, 0, err
	}
	return nd.Cid(), sz, nil
}

// RefPlainDir writes a plain UnixFS directory with the reference library.
func RefPlainDir(s *store.Store, es []DirEntry) (cid.Cid, error) {
	nd := merkledag.NodeWithData([]byte{0x08, 0x01})
	nd.SetCidBuilder(V1PB)
	for _, e := range es {
		if err := nd.AddRawLink(e.Name, &format.Link{Name: e.Name, Size: e.Tsize, Cid: e.Cid}); err != nil {
			return cid.Undef, err
		}
	}
	s.Put(nd.Cid(), nd.RawData())
	return nd.Cid(), nil
}

// DeepChain writes a chain of `depth` single-child shards along name's real
// hash path (levels beyond the hash's capacity use bucket 0) with the value
// link for name in the last shard, and returns the root. It is what a hostile
// or a maximally colliding writer produces.
func DeepChain(s *store.Store, name string, fanout, depth int) (cid.Cid, DirEntry) {
	w := 0
	for 1<<uint(w) < fanout {
		w++
	}
	pad := model.PadLen(fanout)
	leaf := Leaf(s, name)
	h := model.Hash64(name)
	var child cid.Cid
	var childSize uint64
	for level := depth - 1; level >= 0; level-- {
		idx, ok := model.Bucket(h, level, w)
		if !ok {
			idx = 0
		}
		bf := make([]byte, fanout/8)
		bf[len(bf)-1-idx/8] |= 1 << uint(idx%8)
		for len(bf) > 1 && bf[0] == 0 {
			bf = bf[1:] // the reference writer strips leading zero bytes
		}
		var link model.PBLink
		prefix := fmt.Sprintf("%0*X", pad, idx)
		if level == depth-1 {
			link = model.PBLink{Cid: leaf.Cid, Name: prefix + name, HasName: true, Tsize: leaf.Tsize, HasTsize: true}
		} else {
			link = model.PBLink{Cid: child, Name: prefix, HasName: true, Tsize: childSize, HasTsize: true}
		}
		// UnixFS Data: type=5 (HAMTShard), data=bitfield, hashType=0x22, fanout
		d := []byte{0x08, 0x05, 0x12}
		d = protowire.AppendBytes(d, bf)
		d = append(d, 0x28, 0x22, 0x30)
		d = protowire.AppendVarint(d, uint64(fanout))
		blk := model.EncodePB(&model.PBNode{Data: d, HasData: true, Links: []model.PBLink{link}})
		c, _ := V1PB.Sum(blk)
		s.Put(c, blk)
		child, childSize = c, uint64(len(blk))+link.Tsize
	}
	return child, leaf
}

// DiamondChain writes a chain of fanout-8 shards in which every shard links the
// SAME child shard from two buckets (0 and 1); the bottom shard holds one value
// entry. depth+1 distinct blocks, a tree expansion of 2^depth: hostile, but
// every block is a decodable shard.
func DiamondChain(s *store.Store, depth int) (root cid.Cid, blocks int) {
	leaf := Leaf(s, "x")
	mk := func(links []model.PBLink, bf byte) (cid.Cid, uint64) {
		d := []byte{0x08, 0x05, 0x12}
		d = protowire.AppendBytes(d, []byte{bf})
		d = append(d, 0x28, 0x22, 0x30, 0x08)
		blk := model.EncodePB(&model.PBNode{Data: d, HasData: true, Links: links})
		c, _ := V1PB.Sum(blk)
		s.Put(c, blk)
		sz := uint64(len(blk))
		for _, l := range links {
			sz += l.Tsize
		}
		return c, sz
	}
	child, csz := mk([]model.PBLink{{Cid: leaf.Cid, Name: "0x", HasName: true, Tsize: leaf.Tsize, HasTsize: true}}, 0x01)
	for i := 0; i < depth; i++ {
		child, csz = mk([]model.PBLink{
			{Cid: child, Name: "0", HasName: true, Tsize: csz, HasTsize: true},
			{Cid: child, Name: "1", HasName: true, Tsize: csz, HasTsize: true},
		}, 0x03)
	}
	return child, depth + 2
}
