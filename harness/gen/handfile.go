package gen

import (
	"fmt"
	"google.golang.org/protobuf/encoding/protowire"
	"strings"

	"github.com/gogo/protobuf/proto"
	pb "github.com/ipfs/boxo/ipld/unixfs/pb"
	"github.com/ipfs/go-cid"

	"verif/harness/model"
	"verif/harness/store"
)

// HandNode is a node of a hand-written (model-encoded) UnixFS file DAG: either
// a leaf with Content or an interior node with Children.
type HandNode struct {
	Content  []byte
	Children []HandNode
}

// HandSpec describes how a hand-written file DAG is encoded. These are legal
// UnixFS encodings that neither writer of this repository emits but other
// writers do (or did): dag-pb leaves, absent BlockSizes / FileSize, empty
// chunks in the middle of a file.
type HandSpec struct {
	Label      string
	Root       HandNode
	LeafKind   string // "raw" | "pbfile" | "pbraw" | "mixed" (alternating raw / pbfile)
	BlockSizes string // "all" | "none" | "short" (last entry missing) | "long" (one spare trailing entry)
	FileSize   bool
	Tsize      bool // links carry a Tsize
	TsizeZero  bool // ... of value 0 (Tsize is optional and advisory in dag-pb)
	// Lie: the ROOT under-declares something (sizes in UnixFS metadata are hints;
	// the content of a file is the concatenation of its leaves):
	// "tsize-under-mid" (link Tsize of the middle child = 1), "blocksize-under-mid"
	// (BlockSizes entry of the middle child = 1), "filesize-under" (FileSize two
	// bytes short)
	Lie string
	// PackedBlockSizes: BlockSizes written as one packed run (legal protobuf)
	PackedBlockSizes bool
	// FieldOrder "reversed": the fields of every UnixFS Data message are written
	// in reverse order (block sizes and file size before the type; protobuf
	// field order carries no meaning)
	FieldOrder string
	// RootData: "" | "empty" (the root's UnixFS message has a Data field of
	// length 0 although it has links: present-but-empty, legal)
	RootData string
	// Inline: "odd" = every second leaf (the 2nd, 4th, ...) is linked by an
	// identity-multihash CID: the block travels inside its link, as
	// `ipfs add --inline` writes small leaves (a link system hands such a link
	// to its storage like any other)
	Inline string
	// NodeType: "" (File) | "raw": the root and the interior nodes carry UnixFS
	// type Raw although they have links (the go-unixfs reader treats Raw and File
	// nodes alike)
	NodeType string
}

func l(n int, seed byte) HandNode {
	b := make([]byte, n)
	for i := range b {
		b[i] = seed*16 + byte(i) + 1
	}
	return HandNode{Content: b}
}

func in(ch ...HandNode) HandNode { return HandNode{Children: ch} }

// HandShapes lists the tree shapes (leaf sizes 3, with empty leaves at chosen
// positions).
func HandShapes() map[string]HandNode {
	return map[string]HandNode{
		"2":           in(l(3, 1), l(3, 2)),
		"3":           in(l(3, 1), l(3, 2), l(2, 3)),
		"2x2":         in(in(l(3, 1), l(3, 2)), in(l(3, 3), l(1, 4))),
		"2x2+1":       in(in(l(3, 1), l(3, 2)), in(l(3, 3), l(3, 4)), l(2, 5)),
		"1+2":         in(l(3, 1), in(l(3, 2), l(3, 3))),
		"2x1":         in(in(l(3, 1), l(3, 2)), in(l(3, 3))),
		"3-empty-mid": in(l(3, 1), l(0, 2), l(3, 3)),
		"3-empty-end": in(l(3, 1), l(3, 2), l(0, 3)),
		"2x2-empty":   in(in(l(3, 1), l(0, 2)), in(l(0, 3), l(3, 4))),
		"deep":        in(in(in(l(3, 1), l(3, 2)), in(l(3, 3))), in(in(l(2, 4)))),
		// roots with exactly one link
		"1":   in(l(3, 1)),
		"1x2": in(in(l(3, 1), l(3, 2))),
		// chunks of 130 / 200 bytes: block sizes that need two-byte varints
		"big2x2": in(in(l(130, 1), l(200, 2)), in(l(130, 3), l(7, 4))),
	}
}

// HandFamily is the product of shapes and encodings used by the reader-side
// checks.
func HandFamily() []HandSpec {
	var out []HandSpec
	shapes := HandShapes()
	names := make([]string, 0, len(shapes))
	for n := range shapes {
		names = append(names, n)
	}
	sortStrings(names)
	for _, n := range names {
		for _, lk := range []string{"raw", "pbfile", "pbraw", "mixed"} {
			for _, bs := range []string{"all", "none", "short", "long"} {
				for _, fs := range []bool{true, false} {
					out = append(out, HandSpec{Label: fmt.Sprintf("hand %s leaves=%s blocksizes=%s filesize=%v", n, lk, bs, fs),
						Root: shapes[n], LeafKind: lk, BlockSizes: bs, FileSize: fs, Tsize: true})
				}
				// the root carries a present-but-empty Data field next to its links
				if (lk == "raw" || lk == "pbfile") && bs == "all" {
					out = append(out, HandSpec{Label: fmt.Sprintf("hand %s leaves=%s blocksizes=all filesize=true rootdata=empty", n, lk),
						Root: shapes[n], LeafKind: lk, BlockSizes: bs, FileSize: true, Tsize: true, RootData: "empty"})
				}
				// the same with the block sizes in one packed run
				if (lk == "pbfile" || lk == "raw") && bs == "all" {
					out = append(out, HandSpec{Label: fmt.Sprintf("hand %s leaves=%s blocksizes=all filesize=true packed", n, lk),
						Root: shapes[n], LeafKind: lk, BlockSizes: bs, FileSize: true, Tsize: true, PackedBlockSizes: true})
				}
				// the same with the fields of each UnixFS message in reverse order
				if (lk == "pbfile" || lk == "raw") && bs == "all" {
					out = append(out, HandSpec{Label: fmt.Sprintf("hand %s leaves=%s blocksizes=all filesize=true fieldorder=reversed", n, lk),
						Root: shapes[n], LeafKind: lk, BlockSizes: bs, FileSize: true, Tsize: true, FieldOrder: "reversed"})
				}
				// every second leaf inlined in its link; Raw-typed nodes with links
				if (lk == "raw" || lk == "pbfile") && bs == "all" {
					out = append(out, HandSpec{Label: fmt.Sprintf("hand %s leaves=%s blocksizes=all filesize=true inline=odd", n, lk),
						Root: shapes[n], LeafKind: lk, BlockSizes: bs, FileSize: true, Tsize: true, Inline: "odd"})
					out = append(out, HandSpec{Label: fmt.Sprintf("hand %s leaves=%s blocksizes=all filesize=true nodetype=raw", n, lk),
						Root: shapes[n], LeafKind: lk, BlockSizes: bs, FileSize: true, Tsize: true, NodeType: "raw"})
				}
				// links without Tsize / with Tsize 0: only where the reader does
				// not need it (dag-pb children sized by BlockSizes)
				if (lk == "pbfile" || lk == "pbraw") && (bs == "all" || bs == "long") {
					out = append(out,
						HandSpec{Label: fmt.Sprintf("hand %s leaves=%s blocksizes=%s filesize=true tsize=absent", n, lk, bs), Root: shapes[n], LeafKind: lk, BlockSizes: bs, FileSize: true},
						HandSpec{Label: fmt.Sprintf("hand %s leaves=%s blocksizes=%s filesize=true tsize=zero", n, lk, bs), Root: shapes[n], LeafKind: lk, BlockSizes: bs, FileSize: true, Tsize: true, TsizeZero: true})
				}
			}
		}
	}
	return out
}

func sortStrings(a []string) {
	for i := 1; i < len(a); i++ {
		for j := i; j > 0 && a[j] < a[j-1]; j-- {
			a[j], a[j-1] = a[j-1], a[j]
		}
	}
}

// HandLiars: DAGs whose root under-declares a size. A sequential read of the
// whole file and the walks of the whole entity do not depend on those hints;
// anything positioned by them (Seek, ranges) does, so these DAGs only join the
// whole-entity checks.
func HandLiars() []HandSpec {
	var out []HandSpec
	shapes := HandShapes()
	for _, n := range []string{"3", "2x2+1", "3-empty-end"} {
		for _, lk := range []string{"raw", "pbfile"} {
			for _, lie := range []string{"tsize-under-mid", "blocksize-under-mid", "filesize-under"} {
				out = append(out, HandSpec{Label: fmt.Sprintf("hand-liar %s leaves=%s %s", n, lk, lie),
					Root: shapes[n], LeafKind: lk, BlockSizes: "all", FileSize: true, Tsize: true, Lie: lie})
			}
		}
	}
	return out
}

// HandByLabel finds a spec of the family (or of the liars).
func HandByLabel(label string) (HandSpec, bool) {
	for _, h := range HandFamily() {
		if h.Label == label {
			return h, true
		}
	}
	for _, h := range HandLiars() {
		if h.Label == label {
			return h, true
		}
	}
	return HandSpec{}, false
}

// Sized reports whether every interior node records the size of each child.
func (h HandSpec) Sized() bool { return h.BlockSizes == "all" || h.BlockSizes == "long" }

// LazyExact reports whether a reader can position itself anywhere in the file
// without opening a child it does not need: every child's size is recorded
// where the reader looks for it (BlockSizes for dag-pb children, Tsize for raw
// leaves) and no chunk is empty.
func (h HandSpec) LazyExact() bool {
	if !h.Sized() || strings.Contains(h.Label, "empty") || h.Lie != "" {
		return false
	}
	if h.LeafKind == "raw" || h.LeafKind == "mixed" {
		return h.Tsize && !h.TsizeZero
	}
	return true
}

// Build writes the DAG into s and returns the root and the file content.
func (h HandSpec) Build(s *store.Store) (cid.Cid, []byte) {
	leafNo := 0
	var rec func(n HandNode, depth int) (c cid.Cid, content []byte, cum uint64)
	rec = func(n HandNode, depth int) (cid.Cid, []byte, uint64) {
		if n.Children == nil {
			kind := h.LeafKind
			if kind == "mixed" {
				kind = []string{"raw", "pbfile"}[leafNo%2]
			}
			leafNo++
			var blk []byte
			var c cid.Cid
			if kind == "raw" {
				blk = n.Content
				c, _ = V1Raw.Sum(blk)
			} else {
				t := pb.Data_File
				if kind == "pbraw" {
					t = pb.Data_Raw
				}
				d := &pb.Data{Type: &t, Data: n.Content}
				if len(n.Content) == 0 {
					d.Data = []byte{}
				}
				if kind == "pbfile" {
					sz := uint64(len(n.Content))
					d.Filesize = &sz
				}
				db, _ := proto.Marshal(d)
				blk = model.EncodePB(&model.PBNode{Data: db, HasData: true})
				c, _ = V1PB.Sum(blk)
			}
			if h.Inline == "odd" && leafNo%2 == 0 {
				// leafNo was already advanced: the 2nd, 4th, ... leaf
				if ic, err := (cid.Prefix{Version: 1, Codec: c.Prefix().Codec, MhType: 0x00, MhLength: -1}).Sum(blk); err == nil {
					c = ic
				}
			}
			s.Put(c, blk)
			return c, n.Content, uint64(len(blk))
		}
		var links []model.PBLink
		var sizes []uint64
		var content []byte
		cum := uint64(0)
		for idx, ch := range n.Children {
			cc, cont, ccum := rec(ch, depth+1)
			ccumLink := ccum
			if h.TsizeZero {
				ccumLink = 0
			}
			isRootMid := depth == 0 && idx == len(n.Children)/2 && len(n.Children) > 2
			if h.Lie == "tsize-under-mid" && isRootMid {
				ccumLink = 1
			}
			links = append(links, model.PBLink{Cid: cc, Tsize: ccumLink, HasTsize: h.Tsize})
			if h.Lie == "blocksize-under-mid" && isRootMid {
				sizes = append(sizes, 1)
			} else {
				sizes = append(sizes, uint64(len(cont)))
			}
			content = append(content, cont...)
			cum += ccum
		}
		t := pb.Data_File
		if h.NodeType == "raw" {
			t = pb.Data_Raw
		}
		d := &pb.Data{Type: &t}
		switch h.BlockSizes {
		case "all":
			d.Blocksizes = sizes
		case "short":
			d.Blocksizes = sizes[:len(sizes)-1]
		case "long":
			d.Blocksizes = append(append([]uint64{}, sizes...), 7)
		}
		if h.RootData == "empty" && depth == 0 {
			d.Data = []byte{}
		}
		if h.FileSize {
			sz := uint64(len(content))
			if h.Lie == "filesize-under" && depth == 0 && sz >= 2 {
				sz -= 2
			}
			d.Filesize = &sz
		}
		var packed []uint64
		if h.PackedBlockSizes {
			packed, d.Blocksizes = d.Blocksizes, nil
		}
		db, _ := proto.Marshal(d)
		if len(packed) > 0 {
			var run []byte
			for _, v := range packed {
				run = protowire.AppendVarint(run, v)
			}
			db = protowire.AppendTag(db, 4, protowire.BytesType)
			db = protowire.AppendBytes(db, run)
		}
		if h.FieldOrder == "reversed" {
			// block sizes first (in their own order: element order of a repeated
			// field is significant), then the other fields last to first
			var bs, others [][]byte
			for rest := db; len(rest) > 0; {
				num, _, n := protowire.ConsumeField(rest)
				if n < 0 {
					break
				}
				if num == 4 {
					bs = append(bs, rest[:n])
				} else {
					others = append(others, rest[:n])
				}
				rest = rest[n:]
			}
			var rev []byte
			for _, r := range bs {
				rev = append(rev, r...)
			}
			for i := len(others) - 1; i >= 0; i-- {
				rev = append(rev, others[i]...)
			}
			db = rev
		}
		blk := model.EncodePB(&model.PBNode{Data: db, HasData: true, Links: links})
		c, _ := V1PB.Sum(blk)
		s.Put(c, blk)
		return c, content, cum + uint64(len(blk))
	}
	c, content, _ := rec(h.Root, 0)
	return c, content
}
