package gen

import (
	"fmt"
	"strings"
	"sync"

	"verif/harness/model"
)

var collMu sync.Mutex
var collCache = map[string][]string{}

// Colliders returns `count` distinct names tag0, tag1, … (deterministic
// search) whose murmur3 hashes share their top `bits` bits, so that a HAMT with
// log2(fanout)=w nests them bits/w levels deep.
func Colliders(tag string, bits, count int) []string {
	key := fmt.Sprintf("%s/%d/%d", tag, bits, count)
	collMu.Lock()
	defer collMu.Unlock()
	if v, ok := collCache[key]; ok {
		return v
	}
	groups := map[uint64][]string{}
	for i := 0; ; i++ {
		s := fmt.Sprintf("%s%d", tag, i)
		p := model.Hash64(s) >> uint(64-bits)
		groups[p] = append(groups[p], s)
		if len(groups[p]) == count {
			collCache[key] = groups[p]
			return groups[p]
		}
	}
}

// CollidersWith returns `count` names sharing the top `bits` bits with `with`.
func CollidersWith(tag, with string, bits, count int) []string {
	key := fmt.Sprintf("%s/%s/%d/%d", tag, with, bits, count)
	collMu.Lock()
	defer collMu.Unlock()
	if v, ok := collCache[key]; ok {
		return v
	}
	want := model.Hash64(with) >> uint(64-bits)
	var out []string
	for i := 0; len(out) < count; i++ {
		s := fmt.Sprintf("%s%d", tag, i)
		if model.Hash64(s)>>uint(64-bits) == want {
			out = append(out, s)
		}
	}
	collCache[key] = out
	return out
}

// AwkwardNames are names that look like bucket prefixes or need escaping.
func AwkwardNames() []string {
	return []string{"0", "00", "FF", "a", "b c", "é"}
}

// Universe builds the name universe of size n used by the directory checks:
// a group of 3 sharing 12 bits, names sharing 6 bits with that group, the
// awkward names and one 255-byte name, truncated/padded to n.
func Universe(n int) []string {
	g12 := Colliders("k", 12, 3)
	g6 := CollidersWith("m", g12[0], 6, 3)
	u := append([]string{}, g12...)
	u = append(u, g6...)
	u = append(u, AwkwardNames()...)
	u = append(u, strings.Repeat("L", 255))
	for i := 0; len(u) < n; i++ {
		u = append(u, fmt.Sprintf("x%d", i))
	}
	// prefer a mix when truncating: interleave colliders and awkward names
	if n < len(u) {
		order := []int{0, 1, 2, 3, 6, 7, 4, 8, 9, 12, 5, 10, 11}
		var out []string
		for _, i := range order {
			if len(out) < n && i < len(u) {
				out = append(out, u[i])
			}
		}
		return out
	}
	return u
}

// DeepUniverse has groups sharing 15/18/21 bits (depth 5–7 at fanout 8) and a
// pair sharing 20 bits (depth 3 at fanout 1024... 2 full levels + 1).
func DeepUniverse() []string {
	var u []string
	u = append(u, Colliders("d", 21, 3)...)
	u = append(u, CollidersWith("e", u[0], 18, 2)...)
	u = append(u, CollidersWith("f", u[0], 15, 2)...)
	u = append(u, Colliders("g", 20, 2)...)
	u = append(u, CollidersWith("h", u[7], 10, 2)...)
	u = append(u, "0", "FF")
	return u
}

// Subsets calls f for every subset of u selected by mask in [lo,hi).
func SubsetOf(u []string, mask int) []string {
	var out []string
	for i, n := range u {
		if mask>>uint(i)&1 == 1 {
			out = append(out, n)
		}
	}
	return out
}

// SuffixPair returns a name N and a proper suffix K of it (K = N[1:]) whose
// murmur3-64 hashes agree in their top `bits` bits, i.e. K descends through the
// same buckets as N for bits/log2(fanout) levels. With N a member and K not,
// a lookup of K reaches N's value link: only an exact name comparison tells
// them apart. The root bucket (fanout 8) differs from that of `avoid`.
func SuffixPair(bits int, avoid string) (n, k string) {
	ab, _ := model.Bucket(model.Hash64(avoid), 0, 3)
	for i := 0; ; i++ {
		k = fmt.Sprintf("s%d.txt", i)
		n = "~" + k
		hn, hk := model.Hash64(n), model.Hash64(k)
		if hn>>(64-uint(bits)) != hk>>(64-uint(bits)) {
			continue
		}
		if b, _ := model.Bucket(hn, 0, 3); b == ab {
			continue
		}
		return n, k
	}
}
