// Package gen holds the enumerators and the two writers (the library under
// test and the reference implementation from boxo).
package gen

import (
	"bytes"
	"fmt"
	"io"
	"sync"

	chunk "github.com/ipfs/boxo/chunker"
	"github.com/ipfs/boxo/ipld/unixfs/importer/balanced"
	"github.com/ipfs/boxo/ipld/unixfs/importer/helpers"
	"github.com/ipfs/boxo/ipld/unixfs/importer/trickle"
	"github.com/ipfs/go-cid"
	format "github.com/ipfs/go-ipld-format"
	"github.com/ipfs/go-unixfsnode/data/builder"
	cidlink "github.com/ipld/go-ipld-prime/linking/cid"
	mh "github.com/multiformats/go-multihash"

	"verif/harness/store"
)

// Content produces L bytes. pattern "distinct": chunk j (of size k) differs
// from chunk j' (for j,j' < 250); pattern "equal": all full chunks identical.
func Content(L, k int, pattern string) []byte {
	if k < 1 {
		k = 1
	}
	b := make([]byte, L)
	for i := range b {
		j, o := i/k, i%k
		switch pattern {
		case "equal":
			b[i] = byte('A' + o%26)
		case "counter":
			// chunk j holds j as a k-byte big-endian number: 256^k distinct chunks
			// (content-addressed leaves with as many different digests)
			b[i] = byte(j >> (8 * uint(k-1-o)))
		default:
			b[i] = byte(1 + (j*31+o*7+j/251)%251)
		}
	}
	return b
}

// widthMu serialises changes of the global link width; ours-builds under
// different widths must not overlap.
var widthMu sync.RWMutex
var curWidth = builder.DefaultLinksPerBlock

// WithWidth runs f with builder.DefaultLinksPerBlock == w. Calls with the same
// width may run concurrently; a call with a different width waits.
func WithWidth(w int, f func()) {
	for {
		widthMu.RLock()
		if curWidth == w {
			defer widthMu.RUnlock()
			f()
			return
		}
		widthMu.RUnlock()
		widthMu.Lock()
		curWidth = w
		builder.DefaultLinksPerBlock = w
		widthMu.Unlock()
	}
}

// BuildOurs runs the library's file builder. Must be called inside WithWidth.
func BuildOurs(s *store.Store, r io.Reader, chunker string) (cid.Cid, uint64, error) {
	ls := s.LinkSystem()
	l, sz, err := builder.BuildUnixFSFile(r, chunker, ls)
	if err != nil {
		return cid.Undef, 0, err
	}
	if l == nil {
		return cid.Undef, 0, fmt.Errorf("nil link with nil error")
	}
	return l.(cidlink.Link).Cid, sz, nil
}

// RefMode selects how the reference importer writes.
type RefMode struct {
	Layout    string // "balanced" | "trickle"
	RawLeaves bool
	CidV1     bool
}

func (m RefMode) String() string {
	return fmt.Sprintf("%s/raw=%v/v1=%v", m.Layout, m.RawLeaves, m.CidV1)
}

// AllRefModes is the reference importer's leaf/layout/cid-version matrix.
// (CIDv0 cannot carry raw leaves in boxo: raw leaves force v1 leaf cids while
// interior nodes stay v0; that is what kubo produces with --raw-leaves.)
func AllRefModes() []RefMode {
	var out []RefMode
	for _, l := range []string{"balanced", "trickle"} {
		for _, raw := range []bool{true, false} {
			for _, v1 := range []bool{true, false} {
				out = append(out, RefMode{l, raw, v1})
			}
		}
	}
	return out
}

// BuildRef imports content with the reference importer into s.
func BuildRef(s *store.Store, content []byte, chunker string, w int, m RefMode) (cid.Cid, uint64, error) {
	return BuildRefReader(s, bytes.NewReader(content), chunker, w, m)
}

// BuildRefReader: the reference importer over a stream (contents too large to
// hold in memory).
func BuildRefReader(s *store.Store, src io.Reader, chunker string, w int, m RefMode) (cid.Cid, uint64, error) {
	spl, err := chunk.FromString(src, chunker)
	if err != nil {
		return cid.Undef, 0, err
	}
	var cb cid.Builder = cid.V0Builder{}
	if m.CidV1 {
		cb = cid.V1Builder{Codec: cid.DagProtobuf, MhType: mh.SHA2_256}
	}
	dbp := helpers.DagBuilderParams{Maxlinks: w, RawLeaves: m.RawLeaves, CidBuilder: cb, Dagserv: s.DAGService()}
	db, err := dbp.New(spl)
	if err != nil {
		return cid.Undef, 0, err
	}
	var nd format.Node
	if m.Layout == "trickle" {
		nd, err = trickle.Layout(db)
	} else {
		nd, err = balanced.Layout(db)
	}
	if err != nil {
		return cid.Undef, 0, err
	}
	sz, err := nd.Size()
	if err != nil {
		return cid.Undef, 0, err
	}
	return nd.Cid(), sz, nil
}
