// instr is the overlay instrumenter. It parses and type-checks the non-test
// sources of the module under test as they are on disk, and writes rewritten
// copies plus an overlay.json (for `go build -overlay`) without touching /repo:
//
//  1. field accesses x.f of module-defined struct fields in the listed
//     packages  ->  *verifrt.R(&x.f, site) / *verifrt.W(&x.f, site)
//  2. `for k, v := range m` over maps (whole module) -> verifrt.MapKeys
//  3. imports of "sync" and "sync/atomic" in the listed packages -> shims
//  4. the virtual packages verifrt, verifrt/vsync, verifrt/vatomic
//
// usage: instr -repo /repo -out <dir> -vrt <harness/vrt> [-light]
// (run with cwd = repo so that the source importer resolves module imports)
package main

import (
	"bytes"
	"encoding/json"
	"flag"
	"fmt"
	"go/ast"
	"go/format"
	"go/importer"
	"go/parser"
	"go/token"
	"go/types"
	"os"
	"path/filepath"
	"sort"
	"strconv"
	"strings"
)

const modPath = "github.com/ipfs/go-unixfsnode"

// packages whose field accesses and sync imports are instrumented
var fieldPkgs = map[string]bool{".": true, "hamt": true, "file": true, "iter": true, "directory": true, "data": true, "data/builder": true, "data/builder/quick": true, "utils": true}

type report struct {
	Files            map[string]int `json:"rewrites_per_file"`
	FieldRewrites    int            `json:"field_rewrites"`
	MapFieldRewrites int            `json:"map_field_rewrites"`
	GlobalRewrites   int            `json:"package_var_rewrites"`
	MapRanges        []string       `json:"map_ranges"`
	SyncImports      []string       `json:"sync_imports_rewritten"`
	Uninstrumented   []string       `json:"uninstrumented_sites"`
	GoStatements     []string       `json:"go_statements_rewritten"`
	Unsupported      []string       `json:"unsupported_concurrency"`
	Light            bool           `json:"light"`
	PackagesAnalysed []string       `json:"packages"`
}

func main() {
	repo := flag.String("repo", "/repo", "module root")
	out := flag.String("out", "", "output directory")
	vrt := flag.String("vrt", "", "directory holding verifrt/, vsync/, vatomic/")
	light := flag.Bool("light", false, "map ranges only (no field hooks, real sync)")
	flag.BoolVar(&withHooks, "hooks", true, "include the files tagged `verif` (the committed hooks)")
	flag.Parse()
	if *out == "" || *vrt == "" {
		fmt.Fprintln(os.Stderr, "usage: instr -repo R -out O -vrt V")
		os.Exit(2)
	}
	rep := report{Files: map[string]int{}, Light: *light}
	overlay := map[string]string{}
	fset := token.NewFileSet()
	imp := importer.ForCompiler(fset, "source", nil)

	var pkgDirs []string
	filepath.Walk(*repo, func(p string, fi os.FileInfo, err error) error {
		if err != nil {
			return nil
		}
		if fi.IsDir() {
			b := filepath.Base(p)
			if p != *repo && (strings.HasPrefix(b, ".") || b == "testdata" || b == "fixtures" || b == "verifrt") {
				return filepath.SkipDir
			}
			ents, _ := os.ReadDir(p)
			for _, e := range ents {
				if strings.HasSuffix(e.Name(), ".go") && !strings.HasSuffix(e.Name(), "_test.go") {
					rel, _ := filepath.Rel(*repo, p)
					pkgDirs = append(pkgDirs, rel)
					break
				}
			}
		}
		return nil
	})
	sort.Strings(pkgDirs)
	for _, rel := range pkgDirs {
		dir := filepath.Join(*repo, rel)
		parsed, err := parser.ParseDir(fset, dir, func(fi os.FileInfo) bool {
			return !strings.HasSuffix(fi.Name(), "_test.go")
		}, parser.ParseComments)
		if err != nil {
			fatal("parse %s: %v", dir, err)
		}
		for pname, p := range parsed {
			if pname == "main" {
				continue
			}
			var names []string
			for n := range p.Files {
				names = append(names, n)
			}
			sort.Strings(names)
			var files []*ast.File
			var kept []string
			for _, n := range names {
				if !buildable(p.Files[n]) {
					continue
				}
				files = append(files, p.Files[n])
				kept = append(kept, n)
			}
			if len(files) == 0 {
				continue
			}
			info := &types.Info{
				Selections: map[*ast.SelectorExpr]*types.Selection{},
				Types:      map[ast.Expr]types.TypeAndValue{},
				Uses:       map[*ast.Ident]types.Object{},
				Instances:  map[*ast.Ident]types.Instance{},
			}
			conf := types.Config{Importer: imp, Error: func(error) {}}
			ipath := modPath
			if rel != "." {
				ipath = modPath + "/" + filepath.ToSlash(rel)
			}
			if _, err := conf.Check(ipath, fset, files, info); err != nil {
				fatal("typecheck %s: %v", ipath, err)
			}
			rep.PackagesAnalysed = append(rep.PackagesAnalysed, ipath)
			doFields := fieldPkgs[filepath.ToSlash(rel)] && !*light
			for i, f := range files {
				// generated schema code (data/ipldsch_*.go: ~1300 accesses of
				// per-call assembler state) is left uninstrumented: the hooks
				// there multiply the cost of every block decode by 5 and the state
				// is never shared
				doFields := doFields && !strings.HasPrefix(filepath.Base(kept[i]), "ipldsch_")
				if doFields {
					findUnsupported(fset, f, info, &rep)
				}
				n := rewriteFile(fset, f, info, doFields, &rep)
				syncN := 0
				if doFields {
					n += rewriteGoStmts(fset, f, info, &rep)
					syncN = rewriteSyncImports(f, kept[i], &rep)
				}
				if n == 0 && syncN == 0 {
					continue
				}
				if n > 0 {
					addImport(f)
				}
				var buf bytes.Buffer
				if err := format.Node(&buf, fset, f); err != nil {
					fatal("format %s: %v", kept[i], err)
				}
				dst := filepath.Join(*out, rel, filepath.Base(kept[i]))
				os.MkdirAll(filepath.Dir(dst), 0o755)
				if err := os.WriteFile(dst, buf.Bytes(), 0o644); err != nil {
					fatal("%v", err)
				}
				overlay[kept[i]] = dst
				rep.Files[strings.TrimPrefix(kept[i], *repo+"/")] = n + syncN
			}
		}
	}
	for _, sub := range []struct{ dir, file, dst string }{
		{"verifrt", "rt.go", "verifrt/rt.go"},
		{"vsync", "vsync.go", "verifrt/vsync/vsync.go"},
		{"vatomic", "vatomic.go", "verifrt/vatomic/vatomic.go"},
	} {
		overlay[filepath.Join(*repo, sub.dst)] = filepath.Join(*vrt, sub.dir, sub.file)
	}
	if len(rep.Unsupported) > 0 && !*light {
		// channels, select, timers: waiting the cooperative scheduler cannot see.
		// No full overlay is produced; run.sh falls back to the light one (real
		// sync, schedule points at block loads only).
		fatal("concurrency constructs outside the scheduler's model: %s", strings.Join(rep.Unsupported, "; "))
	}
	js, _ := json.MarshalIndent(map[string]any{"Replace": overlay}, "", " ")
	if err := os.WriteFile(filepath.Join(*out, "overlay.json"), js, 0o644); err != nil {
		fatal("%v", err)
	}
	rj, _ := json.MarshalIndent(rep, "", " ")
	os.WriteFile(filepath.Join(*out, "report.json"), rj, 0o644)
	fmt.Printf("instr: %d files rewritten, %d field accesses, %d map ranges, %d uninstrumented sites\n", len(rep.Files), rep.FieldRewrites, len(rep.MapRanges), len(rep.Uninstrumented))
}

var withHooks = true

func fatal(f string, a ...any) {
	fmt.Fprintf(os.Stderr, "instr: "+f+"\n", a...)
	os.Exit(1)
}

// buildable: keep files without build constraints, or whose constraint is
// satisfied by the tags we build with (verif, overlay).
func buildable(f *ast.File) bool {
	for _, cg := range f.Comments {
		if cg.Pos() > f.Package {
			break
		}
		for _, c := range cg.List {
			if strings.HasPrefix(c.Text, "//go:build ") {
				expr := strings.TrimSpace(strings.TrimPrefix(c.Text, "//go:build "))
				switch expr {
				case "verif", "verif && overlay":
					return withHooks
				case "overlay":
					return true
				case "!verif":
					return !withHooks
				case "ignore":
					return false
				}
				return !strings.Contains(expr, "ignore")
			}
		}
	}
	return true
}

func addImport(f *ast.File) {
	spec := &ast.ImportSpec{Path: &ast.BasicLit{Kind: token.STRING, Value: strconv.Quote(modPath + "/verifrt")}}
	decl := &ast.GenDecl{Tok: token.IMPORT, Specs: []ast.Spec{spec}}
	f.Decls = append([]ast.Decl{decl}, f.Decls...)
}

func rewriteSyncImports(f *ast.File, name string, rep *report) int {
	n := 0
	for _, im := range f.Imports {
		p, _ := strconv.Unquote(im.Path.Value)
		var np, alias string
		switch p {
		case "sync":
			np, alias = modPath+"/verifrt/vsync", "sync"
		case "sync/atomic":
			np, alias = modPath+"/verifrt/vatomic", "atomic"
		default:
			continue
		}
		if im.Name == nil {
			im.Name = ast.NewIdent(alias)
		}
		im.Path.Value = strconv.Quote(np)
		rep.SyncImports = append(rep.SyncImports, filepath.Base(name)+":"+p)
		n++
	}
	return n
}

func isModuleField(sel *types.Selection) bool {
	o := sel.Obj()
	return o.Pkg() != nil && strings.HasPrefix(o.Pkg().Path(), modPath)
}

func isSyncType(t types.Type) bool {
	if p, ok := t.(*types.Pointer); ok {
		t = p.Elem()
	}
	if named, ok := t.(*types.Named); ok && named.Obj().Pkg() != nil {
		pp := named.Obj().Pkg().Path()
		return pp == "sync" || pp == "sync/atomic"
	}
	return false
}

func rewriteFile(fset *token.FileSet, f *ast.File, info *types.Info, doFields bool, rep *report) int {
	count := 0
	writes := map[*ast.SelectorExpr]bool{}
	skip := map[*ast.SelectorExpr]bool{}
	ast.Inspect(f, func(n ast.Node) bool {
		switch s := n.(type) {
		case *ast.AssignStmt:
			for _, l := range s.Lhs {
				markWrite(l, writes)
			}
		case *ast.IncDecStmt:
			markWrite(s.X, writes)
		case *ast.UnaryExpr:
			if s.Op == token.AND {
				if se, ok := s.X.(*ast.SelectorExpr); ok {
					skip[se] = true // address taken: left alone, reported
				}
			}
		case *ast.CallExpr:
			if id, ok := s.Fun.(*ast.Ident); ok && id.Name == "delete" && len(s.Args) > 0 {
				markWrite(s.Args[0], writes)
			}
		}
		return true
	})
	// plan before rewriting anything: rewritten nodes have no type info
	plan := map[*ast.SelectorExpr]string{}
	if doFields {
		ast.Inspect(f, func(n ast.Node) bool {
			se, ok := n.(*ast.SelectorExpr)
			if !ok {
				return true
			}
			sel := info.Selections[se]
			if sel == nil || sel.Kind() != types.FieldVal || !isModuleField(sel) {
				return true
			}
			pos := fset.Position(se.Pos())
			site := fmt.Sprintf("%s:%d:%s", filepath.Base(pos.Filename), pos.Line, se.Sel.Name)
			if skip[se] {
				rep.Uninstrumented = append(rep.Uninstrumented, site+" (address taken)")
				return true
			}
			if len(sel.Index()) > 1 {
				// promoted through an embedded field: &x.f is still fine
			}
			tv, ok := info.Types[se.X]
			if !ok || tv.Type == nil {
				rep.Uninstrumented = append(rep.Uninstrumented, site+" (no type)")
				return true
			}
			_, isPtr := tv.Type.Underlying().(*types.Pointer)
			if !isPtr && !tv.Addressable() {
				rep.Uninstrumented = append(rep.Uninstrumented, site+" (not addressable)")
				return true
			}
			if isSyncType(sel.Type()) {
				return true // sync objects are events of their own
			}
			fn := "R"
			if writes[se] {
				fn = "W"
			}
			// map-typed fields: the map object is a location of its own (two
			// structs may hold the same map), reported in addition to the slot
			if _, isMap := sel.Type().Underlying().(*types.Map); isMap {
				if !writes[se] {
					fn = "RMap"
				} else if elemWrites[se] {
					fn = "WMap"
				}
				rep.MapFieldRewrites++
			}
			plan[se] = fn + "|" + site
			return true
		})
	}
	// package-level variables of the module (instrumented packages only):
	// `x` / `pkg.X` -> *verifrt.R|W|M(&x, site)
	gplan := map[ast.Expr]string{}
	if doFields {
		planGlobals(fset, f, info, writes, gplan, rep)
	}
	rewriteExpr := func(e ast.Expr) ast.Expr {
		if p, ok := gplan[e]; ok {
			count++
			rep.GlobalRewrites++
			call := &ast.CallExpr{
				Fun:  &ast.SelectorExpr{X: ast.NewIdent("verifrt"), Sel: ast.NewIdent(p[:1])},
				Args: []ast.Expr{&ast.UnaryExpr{Op: token.AND, X: e}, &ast.BasicLit{Kind: token.STRING, Value: strconv.Quote(p[2:])}},
			}
			return &ast.ParenExpr{X: &ast.StarExpr{X: call}}
		}
		se, ok := e.(*ast.SelectorExpr)
		if !ok {
			return e
		}
		p, ok := plan[se]
		if !ok {
			return e
		}
		count++
		rep.FieldRewrites++
		call := &ast.CallExpr{
			Fun:  &ast.SelectorExpr{X: ast.NewIdent("verifrt"), Sel: ast.NewIdent(p[:strings.Index(p, "|")])},
			Args: []ast.Expr{&ast.UnaryExpr{Op: token.AND, X: se}, &ast.BasicLit{Kind: token.STRING, Value: strconv.Quote(p[strings.Index(p, "|")+1:])}},
		}
		return &ast.ParenExpr{X: &ast.StarExpr{X: call}}
	}
	// map ranges
	ast.Inspect(f, func(n ast.Node) bool {
		r, ok := n.(*ast.RangeStmt)
		if !ok {
			return true
		}
		tv, ok := info.Types[r.X]
		if !ok || tv.Type == nil {
			return true
		}
		if _, isMap := tv.Type.Underlying().(*types.Map); !isMap {
			return true
		}
		pos := fset.Position(r.Pos())
		site := fmt.Sprintf("%s:%d:range", filepath.Base(pos.Filename), pos.Line)
		if !pure(r.X) {
			rep.Uninstrumented = append(rep.Uninstrumented, site+" (impure map expression)")
			return true
		}
		keyIdent := ast.NewIdent("__vk")
		var pre []ast.Stmt
		isBlank := func(e ast.Expr) bool {
			id, ok := e.(*ast.Ident)
			return e == nil || (ok && id.Name == "_")
		}
		if r.Tok == token.DEFINE {
			if !isBlank(r.Key) {
				keyIdent = r.Key.(*ast.Ident)
			}
			if !isBlank(r.Value) {
				pre = append(pre, &ast.AssignStmt{Lhs: []ast.Expr{r.Value}, Tok: token.DEFINE, Rhs: []ast.Expr{&ast.IndexExpr{X: r.X, Index: keyIdent}}})
			}
		} else {
			if !isBlank(r.Key) {
				pre = append(pre, &ast.AssignStmt{Lhs: []ast.Expr{r.Key}, Tok: token.ASSIGN, Rhs: []ast.Expr{keyIdent}})
			}
			if !isBlank(r.Value) {
				pre = append(pre, &ast.AssignStmt{Lhs: []ast.Expr{r.Value}, Tok: token.ASSIGN, Rhs: []ast.Expr{&ast.IndexExpr{X: r.X, Index: keyIdent}}})
			}
		}
		mexpr := r.X
		r.Key = ast.NewIdent("_")
		r.Value = keyIdent
		r.Tok = token.DEFINE
		r.X = &ast.CallExpr{Fun: &ast.SelectorExpr{X: ast.NewIdent("verifrt"), Sel: ast.NewIdent("MapKeys")}, Args: []ast.Expr{mexpr, &ast.BasicLit{Kind: token.STRING, Value: strconv.Quote(site)}}}
		if keyIdent.Name == "__vk" && len(pre) == 0 {
			pre = append(pre, &ast.AssignStmt{Lhs: []ast.Expr{ast.NewIdent("_")}, Tok: token.ASSIGN, Rhs: []ast.Expr{keyIdent}})
		}
		r.Body.List = append(pre, r.Body.List...)
		rep.MapRanges = append(rep.MapRanges, site)
		count++
		return true
	})
	if len(plan) > 0 || len(gplan) > 0 {
		replaceInNode(f, rewriteExpr)
	}
	return count
}

// elemWrites: selectors written THROUGH an index expression (m[k] = v,
// delete(m, k), s[i]++): the field slot is only read, what it refers to is
// written.
var elemWrites = map[*ast.SelectorExpr]bool{}

func markWrite(e ast.Expr, writes map[*ast.SelectorExpr]bool) {
	switch x := e.(type) {
	case *ast.SelectorExpr:
		writes[x] = true
	case *ast.IndexExpr:
		if se, ok := x.X.(*ast.SelectorExpr); ok {
			elemWrites[se] = true
		}
		markWrite(x.X, writes)
	case *ast.ParenExpr:
		markWrite(x.X, writes)
	}
}

func pure(e ast.Expr) bool {
	switch x := e.(type) {
	case *ast.Ident:
		return true
	case *ast.SelectorExpr:
		return pure(x.X)
	case *ast.ParenExpr:
		return pure(x.X)
	case *ast.StarExpr:
		return pure(x.X)
	}
	return false
}

// isPkgVar reports whether obj is a package-level variable of the module.
func isPkgVar(obj types.Object) bool {
	v, ok := obj.(*types.Var)
	if !ok || v.IsField() || v.Pkg() == nil {
		return false
	}
	return v.Parent() == v.Pkg().Scope() && strings.HasPrefix(v.Pkg().Path(), modPath) && !strings.Contains(v.Pkg().Path(), "/verifrt")
}

func refType(t types.Type) bool {
	switch t.Underlying().(type) {
	case *types.Pointer, *types.Interface, *types.Map, *types.Slice, *types.Chan:
		return true
	}
	return false
}

// planGlobals finds references to package-level variables and classifies them
// as read (R), write (W) or use by a possibly mutating callee (M).
func planGlobals(fset *token.FileSet, f *ast.File, info *types.Info, fieldWrites map[*ast.SelectorExpr]bool, gplan map[ast.Expr]string, rep *report) {
	var stack []ast.Node
	writeTargets := map[ast.Expr]bool{}
	ast.Inspect(f, func(n ast.Node) bool {
		switch s := n.(type) {
		case *ast.AssignStmt:
			for _, l := range s.Lhs {
				markWriteExpr(l, writeTargets)
			}
		case *ast.IncDecStmt:
			markWriteExpr(s.X, writeTargets)
		}
		return true
	})
	ast.Inspect(f, func(n ast.Node) bool {
		if n == nil {
			stack = stack[:len(stack)-1]
			return true
		}
		defer func() { stack = append(stack, n) }()
		var expr ast.Expr
		var obj types.Object
		switch x := n.(type) {
		case *ast.Ident:
			// skip idents that are the Sel of a selector or a package-qualified
			// reference (handled at the SelectorExpr)
			if len(stack) > 0 {
				if se, ok := stack[len(stack)-1].(*ast.SelectorExpr); ok && (se.Sel == x) {
					return true
				}
				if kv, ok := stack[len(stack)-1].(*ast.KeyValueExpr); ok && kv.Key == x {
					return true
				}
			}
			obj = info.Uses[x]
			expr = x
		case *ast.SelectorExpr:
			if id, ok := x.X.(*ast.Ident); ok {
				if _, isPkg := info.Uses[id].(*types.PkgName); isPkg {
					obj = info.Uses[x.Sel]
					expr = x
				}
			}
		}
		if obj == nil || !isPkgVar(obj) {
			return true
		}
		if isSyncType(obj.Type()) {
			return true
		}
		var parent ast.Node
		if len(stack) > 0 {
			parent = stack[len(stack)-1]
		}
		pos := fset.Position(expr.Pos())
		site := fmt.Sprintf("%s:%d:var %s", filepath.Base(pos.Filename), pos.Line, obj.Name())
		// address taken or declared here: leave alone
		if u, ok := parent.(*ast.UnaryExpr); ok && u.Op == token.AND {
			rep.Uninstrumented = append(rep.Uninstrumented, site+" (address taken)")
			return true
		}
		if _, ok := parent.(*ast.ValueSpec); ok {
			// initialiser expressions reference other globals before any hook exists
		}
		kind := "R"
		if writeTargets[expr] {
			kind = "W"
		} else if refType(obj.Type()) {
			switch p := parent.(type) {
			case *ast.SelectorExpr:
				// x.Method(...) : receiver use
				if len(stack) > 1 {
					if call, ok := stack[len(stack)-2].(*ast.CallExpr); ok && call.Fun == p {
						if sel := info.Selections[p]; sel != nil && sel.Kind() == types.MethodVal {
							kind = "M"
						}
					}
				}
			case *ast.CallExpr:
				for _, a := range p.Args {
					if a == expr {
						kind = "M"
					}
				}
			}
		}
		gplan[expr] = kind + "|" + site
		return true
	})
}

func markWriteExpr(e ast.Expr, w map[ast.Expr]bool) {
	switch x := e.(type) {
	case *ast.Ident:
		w[x] = true
	case *ast.SelectorExpr:
		w[x] = true
	case *ast.IndexExpr:
		markWriteExpr(x.X, w)
	case *ast.ParenExpr:
		markWriteExpr(x.X, w)
	}
}

// findUnsupported records the constructs whose blocking the cooperative
// scheduler cannot see: channel operations, select, timers, goroutine helpers
// of other modules.
func findUnsupported(fset *token.FileSet, f *ast.File, info *types.Info, rep *report) {
	at := func(n ast.Node, what string) {
		pos := fset.Position(n.Pos())
		rep.Unsupported = append(rep.Unsupported, fmt.Sprintf("%s:%d %s", filepath.Base(pos.Filename), pos.Line, what))
	}
	for _, im := range f.Imports {
		if p, _ := strconv.Unquote(im.Path.Value); strings.HasPrefix(p, "golang.org/x/sync") {
			at(im, "import "+p)
		}
	}
	ast.Inspect(f, func(n ast.Node) bool {
		switch x := n.(type) {
		case *ast.SendStmt:
			at(x, "channel send")
		case *ast.SelectStmt:
			at(x, "select")
		case *ast.UnaryExpr:
			if x.Op == token.ARROW {
				at(x, "channel receive")
			}
		case *ast.RangeStmt:
			if tv, ok := info.Types[x.X]; ok && tv.Type != nil {
				if _, isChan := tv.Type.Underlying().(*types.Chan); isChan {
					at(x, "range over channel")
				}
			}
		case *ast.CallExpr:
			if se, ok := x.Fun.(*ast.SelectorExpr); ok {
				if id, ok := se.X.(*ast.Ident); ok {
					if pn, ok := info.Uses[id].(*types.PkgName); ok {
						switch pn.Imported().Path() + "." + se.Sel.Name {
						case "time.Sleep", "time.After", "time.AfterFunc", "time.NewTimer", "time.NewTicker", "time.Tick",
							"context.WithTimeout", "context.WithDeadline", "context.WithTimeoutCause", "context.WithDeadlineCause", "runtime.Gosched":
							at(x, pn.Imported().Path()+"."+se.Sel.Name)
						}
					}
				}
			}
		}
		return true
	})
}

// rewriteGoStmts turns `go f(a, b)` into
//
//	{ __vgf := f; __vga0 := a; __vga1 := b; verifrt.Go(func() { __vgf(__vga0, __vga1) }) }
//
// (function value and arguments evaluated by the caller, as the language
// says), so that the explorer's scheduler owns the new goroutine.
func rewriteGoStmts(fset *token.FileSet, f *ast.File, info *types.Info, rep *report) int {
	n := 0
	repl := func(g *ast.GoStmt) ast.Stmt {
		pos := fset.Position(g.Pos())
		site := fmt.Sprintf("%s:%d", filepath.Base(pos.Filename), pos.Line)
		call := g.Call
		if id, ok := call.Fun.(*ast.Ident); ok {
			if _, isBuiltin := info.Uses[id].(*types.Builtin); isBuiltin {
				rep.Unsupported = append(rep.Unsupported, site+" go <builtin>")
				return nil
			}
		}
		var pre []ast.Stmt
		fun := call.Fun
		hoist := true
		switch x := ast.Unparen(call.Fun).(type) {
		case *ast.FuncLit:
			hoist = false
		case *ast.Ident:
			if _, isFunc := info.Uses[x].(*types.Func); isFunc {
				hoist = false
			}
		case *ast.SelectorExpr:
			if info.Selections[x] == nil { // package-qualified
				if _, isFunc := info.Uses[x.Sel].(*types.Func); isFunc {
					hoist = false
				}
			}
		case *ast.IndexExpr, *ast.IndexListExpr: // explicit instantiation of a generic function
			hoist = false
		}
		if hoist {
			pre = append(pre, &ast.AssignStmt{Lhs: []ast.Expr{ast.NewIdent("__vgf")}, Tok: token.DEFINE, Rhs: []ast.Expr{call.Fun}})
			fun = ast.NewIdent("__vgf")
		}
		args := make([]ast.Expr, len(call.Args))
		for i, a := range call.Args {
			tv, ok := info.Types[a]
			inline := !ok || tv.Type == nil || tv.Value != nil || tv.IsNil()
			if !inline {
				if b, isBasic := tv.Type.(*types.Basic); isBasic && b.Info()&types.IsUntyped != 0 {
					inline = true
				}
				if _, isTuple := tv.Type.(*types.Tuple); isTuple {
					inline = true // f(g()) with a multi-valued g: evaluated in the new goroutine (inexact, reported)
					rep.Uninstrumented = append(rep.Uninstrumented, site+" (go statement with a multi-valued argument: evaluated late)")
				}
			}
			if inline {
				args[i] = a
				continue
			}
			name := fmt.Sprintf("__vga%d", i)
			pre = append(pre, &ast.AssignStmt{Lhs: []ast.Expr{ast.NewIdent(name)}, Tok: token.DEFINE, Rhs: []ast.Expr{a}})
			args[i] = ast.NewIdent(name)
		}
		inner := &ast.CallExpr{Fun: fun, Args: args, Ellipsis: call.Ellipsis}
		lit := &ast.FuncLit{Type: &ast.FuncType{Params: &ast.FieldList{}}, Body: &ast.BlockStmt{List: []ast.Stmt{&ast.ExprStmt{X: inner}}}}
		spawn := &ast.ExprStmt{X: &ast.CallExpr{Fun: &ast.SelectorExpr{X: ast.NewIdent("verifrt"), Sel: ast.NewIdent("Go")}, Args: []ast.Expr{lit}}}
		rep.GoStatements = append(rep.GoStatements, site)
		n++
		return &ast.BlockStmt{List: append(pre, spawn)}
	}
	fix := func(list []ast.Stmt) {
		for i, st := range list {
			switch x := st.(type) {
			case *ast.GoStmt:
				if r := repl(x); r != nil {
					list[i] = r
				}
			case *ast.LabeledStmt:
				if g, ok := x.Stmt.(*ast.GoStmt); ok {
					if r := repl(g); r != nil {
						x.Stmt = r
					}
				}
			}
		}
	}
	ast.Inspect(f, func(nd ast.Node) bool {
		switch x := nd.(type) {
		case *ast.BlockStmt:
			fix(x.List)
		case *ast.CaseClause:
			fix(x.Body)
		case *ast.CommClause:
			fix(x.Body)
		}
		return true
	})
	return n
}
