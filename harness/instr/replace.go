package main

import (
	"go/ast"
	"reflect"
)

var exprType = reflect.TypeOf((*ast.Expr)(nil)).Elem()

// replaceInNode walks the AST bottom-up and replaces every ast.Expr-typed field/slice element with fn(expr).
func replaceInNode(n ast.Node, fn func(ast.Expr) ast.Expr) {
	seen := map[uintptr]bool{}
	var walk func(v reflect.Value)
	walk = func(v reflect.Value) {
		switch v.Kind() {
		case reflect.Ptr:
			if v.IsNil() {
				return
			}
			if seen[v.Pointer()] {
				return
			}
			seen[v.Pointer()] = true
			// don't descend into ast.Object / Scope
			switch v.Interface().(type) {
			case *ast.Object, *ast.Scope:
				return
			}
			walk(v.Elem())
		case reflect.Interface:
			if v.IsNil() {
				return
			}
			walk(v.Elem())
		case reflect.Struct:
			for i := 0; i < v.NumField(); i++ {
				f := v.Field(i)
				if !f.CanSet() {
					continue
				}
				// KeyValueExpr keys in composite literals: skip Key
				if v.Type() == reflect.TypeOf(ast.KeyValueExpr{}) && v.Type().Field(i).Name == "Key" {
					continue
				}
				// SelectorExpr.Sel must stay ident; X may be rewritten
				walk(f)
				if f.Type() == exprType && !f.IsNil() {
					ne := fn(f.Interface().(ast.Expr))
					f.Set(reflect.ValueOf(ne))
				}
			}
		case reflect.Slice:
			for i := 0; i < v.Len(); i++ {
				e := v.Index(i)
				walk(e)
				if e.Type() == exprType && !e.IsNil() {
					ne := fn(e.Interface().(ast.Expr))
					e.Set(reflect.ValueOf(ne))
				}
			}
		}
	}
	walk(reflect.ValueOf(n))
}
