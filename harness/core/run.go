// Package core holds what every check shares: counters, violation reporting
// with known-finding classification, replay artefacts and the evidence writer.
package core

import (
	"crypto/sha256"
	"encoding/hex"
	"encoding/json"
	"fmt"
	"os"
	"path/filepath"
	"regexp"
	"runtime/debug"
	"sort"
	"strconv"
	"strings"
	"sync"
	"sync/atomic"
	"time"
)

// VerifDir is the root of the verification tree (where evidence/, replays/ and
// known_findings.json live).
func VerifDir() string {
	if d := os.Getenv("VERIF_DIR"); d != "" {
		return d
	}
	return "/verif"
}

// OutDir is where evidence/ and replays/ are written (VERIF_OUT overrides it
// so that mutation runs do not clobber the committed evidence).
func OutDir() string {
	if d := os.Getenv("VERIF_OUT"); d != "" {
		return d
	}
	return VerifDir()
}

// KnownFinding is one entry of known_findings.json.
type KnownFinding struct {
	Status      string `json:"status"` // "known" | "fixed"
	Property    string `json:"property"`
	ID          string `json:"id"`
	Match       string `json:"match"` // regexp over the violation signature (anchored)
	What        string `json:"what"`
	Commit      string `json:"commit,omitempty"`
	Description string `json:"description,omitempty"`
	re          *regexp.Regexp
}

type violation struct {
	Sig    string
	Detail string
	Replay string
}

// Run is the state of one check run.
type Run struct {
	ID    string
	Tier  string
	Seed  int64
	start time.Time

	Evaluations atomic.Int64
	States      atomic.Int64
	Transitions atomic.Int64
	Traces      atomic.Int64

	mu          sync.Mutex
	distinct    map[[16]byte]struct{}
	samples     []any
	maxSamples  int
	extra       map[string]any
	violations  []violation
	violSigs    map[string]int
	known       []KnownFinding
	knownHits   map[string]int
	knownSample map[string]string
	assumptions []string
	rule        string
	exhaustive  bool
	caps        []string
	deadline    time.Time
	internalErr []string
}

// Quick reports whether this is the quick tier.
func (r *Run) Quick() bool { return r.Tier != "thorough" }

func NewRun(id, tier string) *Run {
	seed, _ := strconv.ParseInt(os.Getenv("VERIF_SEED"), 10, 64)
	r := &Run{ID: id, Tier: tier, Seed: seed, start: time.Now(),
		distinct: map[[16]byte]struct{}{}, maxSamples: 6, extra: map[string]any{},
		violSigs: map[string]int{}, knownHits: map[string]int{}, knownSample: map[string]string{},
		exhaustive: true}
	r.loadKnown()
	return r
}

func (r *Run) loadKnown() {
	b, err := os.ReadFile(filepath.Join(VerifDir(), "known_findings.json"))
	if err != nil {
		return
	}
	var f struct {
		Findings []KnownFinding `json:"findings"`
	}
	if err := json.Unmarshal(b, &f); err != nil {
		r.InternalError("known_findings.json: " + err.Error())
		return
	}
	for _, k := range f.Findings {
		if k.Property != r.ID || k.Status != "known" {
			continue // fixed entries suppress nothing
		}
		re, err := regexp.Compile("^(?:" + k.Match + ")$")
		if err != nil {
			r.InternalError("known_findings.json: bad match " + k.Match)
			continue
		}
		k.re = re
		r.known = append(r.known, k)
	}
}

// SetDeadline makes Expired() true after d; a check that stops on it must
// call Cap().
func (r *Run) SetDeadline(d time.Duration) { r.deadline = r.start.Add(d) }
func (r *Run) Expired() bool {
	return !r.deadline.IsZero() && time.Now().After(r.deadline)
}

// Cap records that a bound was hit: the run is no longer exhaustive.
func (r *Run) Cap(what string) {
	r.mu.Lock()
	defer r.mu.Unlock()
	r.exhaustive = false
	for _, c := range r.caps {
		if c == what {
			return
		}
	}
	r.caps = append(r.caps, what)
}

func (r *Run) Rule(s string)   { r.mu.Lock(); r.rule = s; r.mu.Unlock() }
func (r *Run) Assume(s string) { r.mu.Lock(); r.assumptions = append(r.assumptions, s); r.mu.Unlock() }
func (r *Run) Set(k string, v any) {
	r.mu.Lock()
	r.extra[k] = v
	r.mu.Unlock()
}
func (r *Run) Add(k string, n int64) {
	r.mu.Lock()
	old, _ := r.extra[k].(int64)
	r.extra[k] = old + n
	r.mu.Unlock()
}

// Distinct records a non-trivial case/outcome key; returns true when new.
func (r *Run) Distinct(key string) bool {
	h := sha256.Sum256([]byte(key))
	var k [16]byte
	copy(k[:], h[:16])
	r.mu.Lock()
	defer r.mu.Unlock()
	if _, ok := r.distinct[k]; ok {
		return false
	}
	r.distinct[k] = struct{}{}
	return true
}

// Sample keeps a few of the explored cases verbatim for the evidence file.
func (r *Run) Sample(v any) {
	r.mu.Lock()
	defer r.mu.Unlock()
	if len(r.samples) < r.maxSamples {
		r.samples = append(r.samples, v)
	}
}

func (r *Run) InternalError(s string) {
	r.mu.Lock()
	r.internalErr = append(r.internalErr, s)
	r.mu.Unlock()
	fmt.Fprintln(os.Stderr, "INTERNAL-ERROR:", s)
}

// Violate reports a property violation. sig identifies *what* fails (input
// class / call site / history) and is what known_findings.json matches on;
// replay is any JSON-serialisable value that lets `verifcheck replay` re-run
// exactly this case.
func (r *Run) Violate(sig, detail string, replay any) {
	r.mu.Lock()
	defer r.mu.Unlock()
	for _, k := range r.known {
		if k.re.MatchString(sig) {
			r.knownHits[k.ID]++
			if _, ok := r.knownSample[k.ID]; !ok {
				r.knownSample[k.ID] = sig + " :: " + detail
			}
			return
		}
	}
	r.violSigs[sig]++
	if r.violSigs[sig] > 3 || len(r.violations) >= 60 {
		return
	}
	path := ""
	if replay != nil {
		path = r.writeReplay(sig, detail, replay)
	}
	r.violations = append(r.violations, violation{Sig: sig, Detail: detail, Replay: path})
}

// Violations returns the number of unlisted violations so far.
func (r *Run) Violations() int {
	r.mu.Lock()
	defer r.mu.Unlock()
	n := 0
	for _, c := range r.violSigs {
		n += c
	}
	return n
}

func (r *Run) writeReplay(sig, detail string, replay any) string {
	dir := filepath.Join(OutDir(), "replays", r.ID)
	os.MkdirAll(dir, 0o755)
	body, err := json.MarshalIndent(map[string]any{"property": r.ID, "sig": sig, "detail": detail, "case": replay}, "", " ")
	if err != nil {
		body = []byte(fmt.Sprintf(`{"property":%q,"sig":%q,"detail":%q,"case":null,"marshal_error":%q}`, r.ID, sig, detail, err.Error()))
	}
	h := sha256.Sum256(body)
	p := filepath.Join(dir, hex.EncodeToString(h[:6])+".json")
	os.WriteFile(p, body, 0o644)
	return p
}

// Finish writes the evidence file, prints VIOLATION / KNOWN-FINDING lines and
// returns the process exit code.
func (r *Run) Finish() int {
	r.mu.Lock()
	defer r.mu.Unlock()
	wall := time.Since(r.start).Seconds()
	nviol := 0
	for _, c := range r.violSigs {
		nviol += c
	}
	cov := map[string]any{}
	for k, v := range r.extra {
		cov[k] = v
	}
	ev := r.Evaluations.Load()
	st, tr, tc := r.States.Load(), r.Transitions.Load(), r.Traces.Load()
	if tc == 0 {
		tc = ev
	}
	cov["evaluations"] = ev
	cov["distinct_nontrivial"] = len(r.distinct)
	cov["rule"] = r.rule
	if len(r.samples) == 0 {
		r.samples = append(r.samples, "no case was explored")
	}
	cov["samples"] = r.samples
	cov["states"] = st
	cov["transitions"] = tr
	cov["traces_validated_against_impl"] = tc
	cov["exhaustive"] = r.exhaustive && len(r.internalErr) == 0
	if len(r.caps) > 0 {
		cov["caps_hit"] = r.caps
	}
	if len(r.knownHits) > 0 {
		cov["known_findings_hit"] = r.knownHits
	}
	if len(r.internalErr) > 0 {
		cov["internal_errors"] = r.internalErr
	}
	evd := map[string]any{
		"property_id": r.ID,
		"tier":        r.Tier,
		"seed":        r.Seed,
		"level":       "model_checking",
		"coverage":    cov,
		"assumptions": append([]string{}, r.assumptions...),
		"wall_s":      wall,
		"violations":  nviol,
	}
	body, err := json.MarshalIndent(evd, "", " ")
	if err != nil {
		fmt.Fprintln(os.Stderr, "INTERNAL-ERROR: evidence marshal:", err)
		return 2
	}
	dir := filepath.Join(OutDir(), "evidence")
	os.MkdirAll(dir, 0o755)
	if err := os.WriteFile(filepath.Join(dir, r.ID+".json"), append(body, '\n'), 0o644); err != nil {
		fmt.Fprintln(os.Stderr, "INTERNAL-ERROR: evidence write:", err)
		return 2
	}
	ids := make([]string, 0, len(r.knownHits))
	for id := range r.knownHits {
		ids = append(ids, id)
	}
	sort.Strings(ids)
	for _, id := range ids {
		what := id
		for _, k := range r.known {
			if k.ID == id {
				what = k.What
			}
		}
		fmt.Printf("KNOWN-FINDING: property=%s %s [id=%s, %d matching case(s), e.g. %s]\n", r.ID, what, id, r.knownHits[id], oneLine(r.knownSample[id], 300))
	}
	for _, v := range r.violations {
		rp := v.Replay
		if rp == "" {
			rp = "-"
		}
		fmt.Printf("VIOLATION property=%s replay=%s sig=%s :: %s\n", r.ID, rp, v.Sig, oneLine(v.Detail, 600))
	}
	fmt.Printf("%s %s: evaluations=%d states=%d transitions=%d distinct=%d violations=%d known=%d exhaustive=%v wall=%.1fs\n",
		r.ID, r.Tier, ev, st, tr, len(r.distinct), nviol, len(r.knownHits), cov["exhaustive"], wall)
	if len(r.internalErr) > 0 {
		return 2
	}
	if nviol > 0 {
		return 1
	}
	return 0
}

func oneLine(s string, max int) string {
	s = strings.ReplaceAll(s, "\n", " | ")
	if len(s) > max {
		s = s[:max] + "…"
	}
	return s
}

// Guard runs f and converts a panic into (panicked=true, value).
func Guard(f func()) (panicked bool, val any) {
	defer func() {
		if v := recover(); v != nil {
			panicked, val = true, v
		}
	}()
	f()
	return
}

// ParallelFor runs body(i) for i in [0,n) on up to `workers` goroutines.
func ParallelFor(n, workers int, body func(i int)) {
	if workers < 1 {
		workers = 1
	}
	var next atomic.Int64
	var wg sync.WaitGroup
	for w := 0; w < workers; w++ {
		wg.Add(1)
		go func() {
			defer wg.Done()
			for {
				i := int(next.Add(1) - 1)
				if i >= n {
					return
				}
				runGuarded(func() { body(i) })
			}
		}()
	}
	wg.Wait()
}

// PanicHook receives panics that escape a ParallelFor body (value and stack).
// The command sets it to record a violation when the panic comes out of the
// library under test, an internal error otherwise; without a hook the panic is
// re-raised.
var PanicHook func(v any, stack string)

func runGuarded(f func()) {
	defer func() {
		if v := recover(); v != nil {
			if PanicHook == nil {
				panic(v)
			}
			PanicHook(v, string(debug.Stack()))
		}
	}()
	f()
}

// LibraryFrame returns the first stack frame inside the module under test
// ("" when the panic did not pass through it).
func LibraryFrame(stack string) string {
	for _, l := range strings.Split(stack, "\n") {
		l = strings.TrimSpace(l)
		if strings.HasPrefix(l, "github.com/ipfs/go-unixfsnode") && !strings.Contains(l, "/verifrt") {
			if i := strings.LastIndex(l, "("); i > 0 {
				l = l[:i]
			}
			return strings.TrimPrefix(l, "github.com/ipfs/go-unixfsnode/")
		}
	}
	return ""
}
