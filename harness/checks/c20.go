package checks

import (
	"encoding/json"
	"fmt"
	"io"
	"sync/atomic"

	"github.com/ipfs/go-cid"
	unixfsnode "github.com/ipfs/go-unixfsnode"
	"github.com/ipld/go-ipld-prime/datamodel"
	"github.com/ipld/go-ipld-prime/traversal"

	"verif/harness/core"
	"verif/harness/gen"
	"verif/harness/model"
	"verif/harness/store"
)

func init() {
	Registry["C20"] = runC20
	Replayers["C20"] = func(raw []byte) string {
		var c c05Case
		if err := json.Unmarshal(raw, &c); err != nil {
			return "bad case: " + err.Error()
		}
		var out []string
		c20Case(c, func(sig, detail string) { out = append(out, sig+" :: "+detail) }, nil)
		return joinLines(out)
	}
}

func sameOrder(a, b []cid.Cid) bool {
	if len(a) != len(b) {
		return false
	}
	for i := range a {
		if !a[i].Equals(b[i]) {
			return false
		}
	}
	return true
}

func c20Case(c c05Case, viol func(sig, detail string), r *core.Run) {
	switch c.Kind {
	case "file", "hand":
		c20File(c, viol, r)
	case "shard":
		c20Shard(c, viol, r)
	case "handshard":
		c20HandShard(c, viol, r)
	case "path":
		c20Paths(c, viol, r)
	}
}

func c20File(c c05Case, viol func(sig, detail string), r *core.Run) {
	s, root, err := c.buildFile()
	if err != nil {
		viol("build-error", fmt.Sprintf("%s: %v", c, err))
		return
	}
	tree, err := model.FileTree(s, root)
	if err != nil {
		viol("model-error", fmt.Sprintf("%s: %v", c, err))
		return
	}
	want := store.FirstReads(tree.DFS()[1:]) // the root is loaded by the caller
	// a block with an empty byte span may or may not be opened by a read: the
	// order is checked over the blocks that are requested, all others must be
	emptySpan := tree.EmptySpan()
	full := want
	filterWant := func(got []cid.Cid) []cid.Cid {
		in := model.CidSet(got)
		var w2 []cid.Cid
		for _, c := range full {
			if !emptySpan[c.KeyString()] || in[c.KeyString()] {
				w2 = append(w2, c)
			}
		}
		return w2
	}
	class := "file"
	if c.Kind == "hand" {
		class = "hand-sized"
		if spec, ok := gen.HandByLabel(c.Hand); ok && !spec.Sized() {
			class = "hand-unsized"
		}
	}
	if r != nil {
		r.States.Add(1)
	}
	ls := lsFor(s)
	ops := map[string]func(root datamodel.Node) error{
		"AsBytes": func(rn datamodel.Node) error {
			n, err := openVia("unixfs", ls, rn)
			if err != nil {
				return err
			}
			_, err = n.AsBytes()
			return err
		},
		"stream-buf2": func(rn datamodel.Node) error {
			n, err := openVia("NewUnixFSFile", ls, rn)
			if err != nil {
				return err
			}
			lb, ok := n.(datamodel.LargeBytesNode)
			if !ok {
				return nil
			}
			rs, err := lb.AsLargeBytes()
			if err != nil {
				return err
			}
			_, err = readAllBuf(rs, 2, 1<<20)
			return err
		},
		"preload-reify": func(rn datamodel.Node) error {
			_, err := openVia("unixfs-preload", ls, rn)
			return err
		},
		"preload-selector": nil,
		"entity-selector":  nil,
	}
	for _, name := range sortedKeys(ops) {
		for rep := 0; rep < 2; rep++ {
			var err error
			var got []cid.Cid
			if f := ops[name]; f != nil {
				rn, lerr := loadRoot(ls, root)
				if lerr != nil {
					viol("load-root", lerr.Error())
					return
				}
				s.ResetLogs()
				err = f(rn)
				got = store.FirstReads(s.Reads())
			} else {
				sel := unixfsnode.MatchUnixFSPreloadSelector.Node()
				if name == "entity-selector" {
					sel = unixfsnode.MatchUnixFSEntitySelector.Node()
				}
				s.ResetLogs()
				err = walkMatching(lsFor(s), root, sel, unixfsnode.BytesConsumingMatcher)
				got = store.FirstReads(s.Reads())
				if len(got) > 0 && got[0].Equals(root) {
					got = got[1:]
				}
			}
			if r != nil {
				r.Transitions.Add(1)
			}
			if err != nil {
				viol("op-error "+name, fmt.Sprintf("%s: %v", c, err))
				break
			}
			want := filterWant(got)
			if class == "hand-unsized" && !sameOrder(got, want) {
				// the known finding is about dag-pb children opened early to learn
				// their size; a raw block's size is on its link, so a raw block is
				// never requested ahead of a block that precedes it depth-first
				pos := map[string]int{}
				for i, k := range want {
					pos[k.KeyString()] = i
				}
				seen := map[string]bool{}
				for _, k := range got {
					if k.Prefix().Codec == cid.Raw {
						for _, w := range want[:pos[k.KeyString()]] {
							if !seen[w.KeyString()] {
								viol("load-order hand-unsized-raw-block-early "+name, fmt.Sprintf("%s run %d: raw block %s is requested before %s, which precedes it depth-first (requests %s, depth-first order %s)", c, rep, short(k), short(w), shortList(got), shortList(want)))
								break
							}
						}
					}
					seen[k.KeyString()] = true
				}
			}
			if !sameOrder(got, want) {
				viol("load-order "+class+" "+name, fmt.Sprintf("%s run %d: first requests %s, depth-first link order is %s", c, rep, shortList(got), shortList(want)))
				break
			}
		}
	}
}

func c20Shard(c c05Case, viol func(sig, detail string), r *core.Run) {
	s := store.New()
	es := gen.Leaves(s, c.Names)
	var root cid.Cid
	var err error
	if c.Ref {
		root, _, err = gen.RefShard(s, c.Fanout, es)
	} else {
		root, _, err = gen.OursSharded(s, c.Fanout, es)
	}
	if err != nil {
		viol("build-error", fmt.Sprintf("%s: %v", c, err))
		return
	}
	hm, err := model.Hamt(s, root)
	if err != nil {
		viol("model-error", fmt.Sprintf("%s: %v", c, err))
		return
	}
	want := store.FirstReads(hm.Shards())
	if r != nil {
		r.States.Add(1)
	}
	ls := lsFor(s)
	ops := map[string]func(rn datamodel.Node) error{
		"MapIterator": func(rn datamodel.Node) error {
			n, err := openVia("unixfs", ls, rn)
			if err != nil {
				return err
			}
			it := n.MapIterator()
			for steps := 0; !it.Done(); steps++ {
				if _, _, err := it.Next(); err != nil {
					return err
				}
				if steps > 10000 {
					return fmt.Errorf("iteration did not terminate")
				}
			}
			return nil
		},
		"Length": func(rn datamodel.Node) error {
			n, err := openVia("unixfs", ls, rn)
			if err != nil {
				return err
			}
			if got := n.Length(); got != int64(len(c.Names)) {
				return fmt.Errorf("Length()=%d want %d", got, len(c.Names))
			}
			return nil
		},
		"preload-reify": func(rn datamodel.Node) error {
			_, err := openVia("unixfs-preload", ls, rn)
			return err
		},
	}
	for _, name := range sortedKeys(ops) {
		for rep := 0; rep < 2; rep++ {
			rn, err := loadRoot(ls, root)
			if err != nil {
				viol("load-root", err.Error())
				return
			}
			s.ResetLogs()
			err = ops[name](rn)
			got := store.FirstReads(s.Reads())
			if r != nil {
				r.Transitions.Add(1)
			}
			if err != nil {
				viol("op-error "+name, fmt.Sprintf("%s: %v", c, err))
				break
			}
			if !sameOrder(got, want) {
				viol("load-order shard "+name, fmt.Sprintf("%s run %d: first requests %s, depth-first link order is %s", c, rep, shortList(got), shortList(want)))
				break
			}
		}
	}
	// resolving one segment (present or absent) on a cold node requests the
	// shards on that name's hash path, in root-to-leaf order, and nothing else
	probes := append([]string{"nope", "absent-name", ""}, c.Names...)
	if len(probes) > 8 {
		probes = probes[:8]
	}
	for _, q := range probes {
		rn, err := loadRoot(ls, root)
		if err != nil {
			return
		}
		n, err := openVia("unixfs", ls, rn)
		if err != nil {
			return
		}
		path, _ := hm.HashPath(q)
		s.ResetLogs()
		n.LookupByString(q)
		got := store.FirstReads(s.Reads())
		if r != nil {
			r.Transitions.Add(1)
		}
		if !sameOrder(got, store.FirstReads(path)) {
			viol("load-order shard lookup", fmt.Sprintf("%s: LookupByString(%q) on a cold node requested %s, the shards on its hash path are %s", c, q, shortList(got), shortList(path)))
		}
	}
}

// c20HandShard: hand-written shard DAGs (child shards of another fanout than
// their parent, empty children, two children under one slot). Walks of the
// whole directory that succeed request every shard block, depth-first in link
// order; a walk the library refuses (a listing meeting a child of another
// width) has requested a prefix of that order.
func c20HandShard(c c05Case, viol func(sig, detail string), r *core.Run) {
	spec, ok := gen.HandShards()[c.Hand]
	if !ok {
		viol("harness", "unknown hand-written shard DAG "+c.Hand)
		return
	}
	s := store.New()
	root, _ := spec.Build(s)
	hm, err := model.Hamt(s, root)
	if err != nil {
		viol("model-error", fmt.Sprintf("%s: %v", c, err))
		return
	}
	want := store.FirstReads(hm.Shards())
	if r != nil {
		r.States.Add(1)
	}
	ls := lsFor(s)
	ops := map[string]func(rn datamodel.Node) error{
		"MapIterator": func(rn datamodel.Node) error {
			n, err := openVia("unixfs", ls, rn)
			if err != nil {
				return err
			}
			it := n.MapIterator()
			for steps := 0; !it.Done(); steps++ {
				if _, _, err := it.Next(); err != nil {
					return err
				}
				if steps > 10000 {
					return fmt.Errorf("iteration did not terminate")
				}
			}
			return nil
		},
		"Length": func(rn datamodel.Node) error {
			n, err := openVia("unixfs", ls, rn)
			if err != nil {
				return err
			}
			n.Length()
			return nil
		},
		"preload-reify": func(rn datamodel.Node) error {
			_, err := openVia("unixfs-preload", ls, rn)
			return err
		},
		"preload-selector": func(datamodel.Node) error {
			return walkMatching(ls, root, unixfsnode.MatchUnixFSPreloadSelector.Node(), unixfsnode.BytesConsumingMatcher)
		},
	}
	for _, name := range sortedKeys(ops) {
		for rep := 0; rep < 2; rep++ {
			rn, err := loadRoot(ls, root)
			if err != nil {
				viol("load-root", err.Error())
				return
			}
			s.ResetLogs()
			err = ops[name](rn)
			got := store.FirstReads(s.Reads())
			if len(got) > 0 && got[0].Equals(root) {
				got = got[1:] // the selector walk loads the root itself
			}
			wantHere := want
			if len(wantHere) > 0 && wantHere[0].Equals(root) {
				wantHere = wantHere[1:]
			}
			if r != nil {
				r.Transitions.Add(1)
			}
			if err != nil {
				// refused: what was requested so far is a prefix of the order
				if len(got) > len(wantHere) || !sameOrder(got, wantHere[:len(got)]) {
					viol("load-order handshard "+name, fmt.Sprintf("%s run %d: refused (%v) after requesting %s, which is not a prefix of the depth-first link order %s", c, rep, err, shortList(got), shortList(wantHere)))
				}
				break
			}
			if !sameOrder(got, wantHere) {
				viol("load-order handshard "+name, fmt.Sprintf("%s run %d: first requests %s, depth-first link order is %s", c, rep, shortList(got), shortList(wantHere)))
				break
			}
		}
	}
}

// c20Paths: the requests for blocks on the path appear in root-to-target order.
func c20Paths(c c05Case, viol func(sig, detail string), r *core.Run) {
	s := store.New()
	seed := 0
	t, err := c.Tree.build(s, &seed)
	if err != nil {
		viol("build-error", fmt.Sprintf("%s: %v", c, err))
		return
	}
	if r != nil {
		r.States.Add(1)
	}
	for _, segs := range t.allPaths() {
		_, trail := t.resolve(segs)
		// the path = the tree nodes along it and, below every sharded
		// directory, the shards on the hash path of the next segment
		var want []cid.Cid
		onPath := map[string]bool{}
		add := func(c cid.Cid) {
			if !onPath[c.KeyString()] {
				want = append(want, c)
			}
			onPath[c.KeyString()] = true
		}
		for i, n := range trail {
			add(n.Cid)
			if n.Kind == "hamt" && i < len(segs) && len(n.Names) > 0 {
				if hm, err := model.Hamt(s, n.Cid); err == nil {
					shards, _ := hm.HashPath(segs[i])
					for _, sc := range shards {
						add(sc)
					}
				}
			}
		}
		same, _ := pathVariants(segs)
		for _, p := range same[:2] {
			for rep := 0; rep < 2; rep++ {
				s.ResetLogs()
				sel := unixfsnode.UnixFSPathSelectorBuilder(p, unixfsnode.MatchUnixFSSelector, false)
				err := walkMatching(lsFor(s), t.Cid, sel, func(traversal.Progress, datamodel.Node) error { return nil })
				if r != nil {
					r.Transitions.Add(1)
				}
				if err != nil {
					viol("walk-error", fmt.Sprintf("%s path %q: %v", c, p, err))
					continue
				}
				// every request of the traversal, not only those for path blocks:
				// a block requested off the path is out of order by definition
				got := store.FirstReads(s.Reads())
				if !sameOrder(got, want) {
					viol("load-order path", fmt.Sprintf("%s path %q: the traversal requested %s, the path in root-to-target order is %s", c, p, shortList(got), shortList(want)))
				}
			}
		}
	}
}

var _ = io.EOF

func runC20(r *core.Run) {
	r.Rule("bounded-exhaustive: every file shape (w in {2,3,4}, incl. equal chunks = shared blocks) x {AsBytes, streamed read, preload reifier, preload selector, entity selector+consume}; every sharded directory of the universe subsets x {MapIterator, Length, preload}; every path of every small tree; each run twice; oracle: first-request sequence per distinct link == independent depth-first link-order walk of the stored blocks")
	var cases []c05Case
	var files []fileCase
	if r.Quick() {
		files = smallFileFamily([]int{2, 3}, []int{3}, []string{"distinct", "equal"}, []string{"ours", "balanced/raw=false/v1=false", "trickle/raw=true/v1=true"})
		files = append(files, smallFileFamily([]int{4}, []int{1}, []string{"distinct"}, []string{"ours"})...)
	} else {
		files = smallFileFamily([]int{2, 3, 4}, []int{1, 3}, []string{"distinct", "equal"}, allWriters())
		files = append(files, smallFileFamily([]int{5}, []int{1}, []string{"distinct"}, []string{"ours"})...)
	}
	for _, f := range files {
		cases = append(cases, c05Case{Kind: "file", File: f})
	}
	// legal encodings neither writer emits: dag-pb leaves, absent BlockSizes /
	// FileSize, empty chunks in the middle
	for _, h := range gen.HandFamily() {
		cases = append(cases, c05Case{Kind: "hand", Hand: h.Label})
	}
	// DAGs whose root under-declares a size: whole-entity walks do not depend on it
	for _, h := range gen.HandLiars() {
		cases = append(cases, c05Case{Kind: "hand", Hand: h.Label})
	}
	usize := 10
	fanouts := []int{8, 16, 256}
	if !r.Quick() {
		usize = 12
		fanouts = []int{8, 16, 32, 64, 128, 256, 512, 1024}
	}
	u := gen.Universe(usize)
	for mask := 1; mask < 1<<uint(len(u)); mask++ {
		for _, f := range fanouts {
			cases = append(cases, c05Case{Kind: "shard", Fanout: f, Names: gen.SubsetOf(u, mask)})
			if mask%7 == 0 {
				cases = append(cases, c05Case{Kind: "shard", Fanout: f, Names: gen.SubsetOf(u, mask), Ref: true})
			}
		}
	}
	du := gen.DeepUniverse()
	for mask := 1; mask < 1<<uint(len(du)); mask += 3 {
		cases = append(cases, c05Case{Kind: "shard", Fanout: 8, Names: gen.SubsetOf(du, mask)})
	}
	// wide nodes: 1500 entries at fanout 256 (a root with 256 links, ~250 of them
	// child shards) and at fanout 16 (three levels, 16 links per node)
	var many []string
	for i := 0; i < 1500; i++ {
		many = append(many, fmt.Sprintf("entry-%04d.dat", i))
	}
	cases = append(cases, c05Case{Kind: "shard", Fanout: 256, Names: many}, c05Case{Kind: "shard", Fanout: 16, Names: many[:600]}, c05Case{Kind: "shard", Fanout: 256, Names: many[:300], Ref: true})
	// hand-written shard DAGs: mixed fanouts, empty children, duplicate slots
	for _, l := range gen.HandShardLabels() {
		cases = append(cases, c05Case{Kind: "handshard", Hand: l})
	}
	for _, t := range pathTrees(r.Quick()) {
		t := t
		cases = append(cases, c05Case{Kind: "path", Tree: &t})
	}
	groups := map[int][]c05Case{}
	for _, c := range cases {
		groups[c.File.W] = append(groups[c.File.W], c)
	}
	// map-iteration order is an owned seam in the overlay build: every case is
	// run under three orders for every map range of the module (a pure
	// function of (n, site), so the passes may run their cases in parallel).
	// Any map range that influenced the load order would make a pass disagree
	// with the model.
	passes := []string{"ascending"}
	if overlayActive {
		passes = append(passes, "reversed", "rotated")
	}
	var mapRangesHit atomic.Int64
	for _, pass := range passes {
		pass := pass
		if overlayActive {
			setMapPerm(func(n int, site string) []int {
				mapRangesHit.Add(1)
				p := make([]int, n)
				for i := range p {
					switch pass {
					case "reversed":
						p[i] = n - 1 - i
					case "rotated":
						p[i] = (i + 1) % n
					default:
						p[i] = i
					}
				}
				return p
			})
		}
		for _, w := range []int{0, 2, 3, 4, 5} {
			g := groups[w]
			core.ParallelFor(len(g), workers, func(i int) {
				c := g[i]
				r.Evaluations.Add(1)
				r.Distinct(c.String())
				if i%397 == 0 && pass == "ascending" {
					r.Sample(c.String())
				}
				c20Case(c, func(sig, detail string) { r.Violate(sig+" maporder="+pass, detail, c) }, r)
			})
		}
	}
	setMapPerm(nil)
	r.Set("map_order_passes", passes)
	r.Set("map_ranges_crossed", mapRangesHit.Load())
}
