package checks

import (
	"bytes"
	"encoding/json"
	"fmt"
	"io"
	"os"
	"runtime/debug"
	"time"

	"github.com/ipfs/go-cid"
	unixfsnode "github.com/ipfs/go-unixfsnode"
	"github.com/ipld/go-ipld-prime/datamodel"
	basicnode "github.com/ipld/go-ipld-prime/node/basic"
	"github.com/ipld/go-ipld-prime/traversal"
	sb "github.com/ipld/go-ipld-prime/traversal/selector/builder"

	"strings"
	"verif/harness/core"
	"verif/harness/gen"
	"verif/harness/model"
	"verif/harness/store"
	"verif/harness/xplore"
)

func init() {
	Registry["C05"] = runC05
	Replayers["C05"] = func(raw []byte) string {
		var c c05Case
		if err := json.Unmarshal(raw, &c); err != nil {
			return "bad case: " + err.Error()
		}
		var out []string
		c.run(func(sig, detail string) { out = append(out, sig+" :: "+detail) }, nil)
		return joinLines(out)
	}
}

type c05Case struct {
	Kind   string    `json:"kind"` // file | hand | shard | handshard | path
	File   fileCase  `json:"file,omitempty"`
	Fanout int       `json:"fanout,omitempty"`
	Names  []string  `json:"names,omitempty"`
	Ref    bool      `json:"ref_written,omitempty"`
	Tree   *treeSpec `json:"tree,omitempty"`
	Hand   string    `json:"hand,omitempty"` // label of a hand-written file DAG (gen.HandFamily)
	// Opener: how the file is opened: "" = the lazy reifier; "NewUnixFSFile" =
	// the file package directly; "NewUnixFSFile-any" = the same over a root
	// decoded without the dag-pb prototype
	Opener string `json:"opener,omitempty"`
}

func (c c05Case) opener() string {
	if c.Opener == "" {
		return "unixfs"
	}
	return c.Opener
}

// buildFile writes the file DAG of a "file" or "hand" case.
func (c c05Case) buildFile() (*store.Store, cid.Cid, error) {
	if c.Kind == "hand" {
		spec, ok := gen.HandByLabel(c.Hand)
		if !ok {
			return nil, cid.Undef, fmt.Errorf("unknown hand-written DAG %q", c.Hand)
		}
		s := store.New()
		root, _ := spec.Build(s)
		return s, root, nil
	}
	s, root, _, err := c.File.build()
	return s, root, err
}

func (c c05Case) String() string {
	switch c.Kind {
	case "file":
		return "file " + c.File.String() + c.openerSuffix()
	case "hand", "handshard":
		return c.Hand + c.openerSuffix()
	case "path":
		return "path-tree " + c.Tree.String()
	}
	return fmt.Sprintf("shard F=%d ref=%v %q", c.Fanout, c.Ref, trimNames(c.Names))
}

func (c c05Case) openerSuffix() string {
	if c.Opener == "" {
		return ""
	}
	return " opened with " + c.Opener
}

func extraReads(log []cid.Cid, allowed map[string]bool) []cid.Cid {
	var out []cid.Cid
	for _, c := range log {
		if !allowed[c.KeyString()] {
			out = append(out, c)
		}
	}
	return out
}

func (c c05Case) run(viol func(sig, detail string), r *core.Run) {
	switch c.Kind {
	case "file", "hand":
		c.runFile(viol, r)
	case "shard":
		c.runShard(viol, r)
	case "path":
		c.runPaths(viol, r)
	}
}

func (c c05Case) runFile(viol func(sig, detail string), r *core.Run) {
	s, root, err := c.buildFile()
	if err != nil {
		viol("build-error", fmt.Sprintf("%s: %v", c, err))
		return
	}
	tree, err := model.FileTree(s, root)
	if err != nil {
		viol("model-error", fmt.Sprintf("%s: %v", c, err))
		return
	}
	content := tree.Content()
	L := int64(len(content))
	ls := lsFor(s)
	rootNode, err := loadRoot(ls, root)
	if err != nil {
		viol("load-root", err.Error())
		return
	}
	s.ResetLogs()
	n, err := openVia(c.opener(), ls, rootNode)
	if err != nil {
		viol("reify-error", fmt.Sprintf("%s: %v", c, err))
		return
	}
	if len(s.Reads()) != 0 {
		viol("reify-fetches", fmt.Sprintf("%s: lazy reification requested %s", c, shortList(s.Reads())))
	}
	lb, ok := n.(datamodel.LargeBytesNode)
	if !ok {
		if len(tree.Children) > 0 {
			viol("multi-block-file-not-reified-as-file", fmt.Sprintf("%s: the root has %d links and valid UnixFS file data, reification returned %T (kind %s)", c, len(tree.Children), n, n.Kind()))
		}
		return // raw single block root reified as plain bytes: nothing lazy to check
	}
	if r != nil {
		r.States.Add(1)
	}
	rs, _ := lb.AsLargeBytes()
	s.ResetLogs()
	if end, err := rs.Seek(0, io.SeekEnd); err != nil || end != L {
		viol("seek-end", fmt.Sprintf("%s: (%d,%v) want %d", c, end, err, L))
	}
	if x := extraReads(s.Reads(), map[string]bool{root.KeyString(): true}); len(x) > 0 {
		viol("seek-end-fetches", fmt.Sprintf("%s: Seek(0,End) requested %s", c, shortList(x)))
	}
	check := func(mode string, a, b int64, got []byte, err error) {
		if r != nil {
			r.Transitions.Add(1)
		}
		if err != nil || !bytes.Equal(got, content[a:b]) {
			viol("range-bytes "+mode, fmt.Sprintf("%s [%d,%d): err=%v got %s want %s", c, a, b, err, clip(got, 16), clip(content[a:b], 16)))
			return
		}
		allowed := tree.Needed(a, b)
		if x := extraReads(s.Reads(), allowed); len(x) > 0 {
			viol("over-fetch "+mode+" "+c.File.Writer, fmt.Sprintf("%s [%d,%d): requested %s; not intersecting the range: %s", c, a, b, shortList(s.Reads()), shortList(x)))
		}
	}
	// a Seek is not a request for data: positioning at x and then, without
	// reading, at a (any whence) fetches only what the read of [a,b) needs, and
	// a reader that is only positioned fetches nothing
	if L >= 2 && L <= 40 {
		for x := int64(0); x < L; x++ {
			rs, _ := lb.AsLargeBytes()
			s.ResetLogs()
			if _, err := rs.Seek(x, io.SeekStart); err != nil {
				continue
			}
			if len(s.Reads()) != 0 {
				viol("seek-fetches", fmt.Sprintf("%s: Seek(%d,Start) alone requested %s", c, x, shortList(s.Reads())))
				break
			}
			for _, a := range []int64{0, (x + L/2) % L, L - 1} {
				rs, _ := lb.AsLargeBytes()
				s.ResetLogs()
				rs.Seek(x, io.SeekStart)
				var err error
				if a%2 == 0 {
					_, err = rs.Seek(a, io.SeekStart)
				} else {
					_, err = rs.Seek(a-x, io.SeekCurrent)
				}
				buf := make([]byte, 1)
				if err == nil {
					_, err = io.ReadFull(rs, buf)
				}
				if r != nil {
					r.Transitions.Add(1)
				}
				if err != nil || buf[0] != content[a] {
					viol("range-bytes double-seek", fmt.Sprintf("%s: Seek(%d), Seek to %d, Read(1): err=%v got %x want %x", c, x, a, err, buf, content[a:a+1]))
					continue
				}
				if xr := extraReads(s.Reads(), tree.Needed(a, a+1)); len(xr) > 0 {
					viol("over-fetch double-seek "+c.File.Writer, fmt.Sprintf("%s: Seek(%d), Seek to %d, Read(1): requested %s; byte %d needs none of %s", c, x, a, shortList(s.Reads()), a, shortList(xr)))
				}
			}
		}
	}
	// two requests on ONE reader: read [a,b), then seek to c and read [c,d).
	// What the second request fetches must again be only what [c,d) needs
	// (a reader that walks or discards the gap would fetch the blocks between).
	if L >= 4 && L <= 14 {
		for a := int64(0); a < L; a++ {
			for b := a + 1; b <= L; b++ {
				for c2 := int64(0); c2 < L; c2++ {
					for d := c2 + 1; d <= L; d++ {
						if (b-a > 2 && b != L) || (d-c2 > 2 && d != L) {
							continue // first/second request: 1-2 bytes or up to the end
						}
						rs, _ := lb.AsLargeBytes()
						buf := make([]byte, b-a)
						if _, err := rs.Seek(a, io.SeekStart); err != nil {
							continue
						}
						if _, err := io.ReadFull(rs, buf); err != nil {
							continue
						}
						s.ResetLogs()
						buf2 := make([]byte, d-c2)
						_, err := rs.Seek(c2-b, io.SeekCurrent)
						if err == nil {
							_, err = io.ReadFull(rs, buf2)
						}
						if r != nil {
							r.Transitions.Add(1)
						}
						if err != nil || !bytes.Equal(buf2, content[c2:d]) {
							viol("range-bytes second-request", fmt.Sprintf("%s [%d,%d) then [%d,%d): err=%v got %s want %s", c, a, b, c2, d, err, clip(buf2, 16), clip(content[c2:d], 16)))
							continue
						}
						if x := extraReads(s.Reads(), tree.Needed(c2, d)); len(x) > 0 {
							viol("over-fetch second-request "+c.File.Writer, fmt.Sprintf("%s: after reading [%d,%d), Seek(%+d,Current)+read of [%d,%d) requested %s; not intersecting the range: %s", c, a, b, c2-b, c2, d, shortList(s.Reads()), shortList(x)))
						}
					}
				}
			}
		}
	}
	// reads positioned at or past the end: the range is empty, nothing is needed
	for _, pos := range []struct {
		off    int64
		whence int
		label  string
	}{{L, io.SeekStart, "Seek(L,Start)"}, {0, io.SeekEnd, "Seek(0,End)"}, {L + 1, io.SeekStart, "Seek(L+1,Start)"}, {2, io.SeekEnd, "Seek(2,End)"}} {
		rs, _ := lb.AsLargeBytes()
		s.ResetLogs()
		_, err := rs.Seek(pos.off, pos.whence)
		n := 0
		if err == nil {
			n, err = rs.Read(make([]byte, 4))
		}
		if r != nil {
			r.Transitions.Add(1)
		}
		if n != 0 || err != io.EOF {
			viol("read-at-eof", fmt.Sprintf("%s: %s then Read = (%d, %v), want (0, EOF)", c, pos.label, n, err))
		}
		if got := s.Reads(); len(got) > 0 {
			viol("over-fetch at-eof "+c.File.Writer, fmt.Sprintf("%s: %s then Read requested %s although no byte lies at or after that offset", c, pos.label, shortList(got)))
		}
	}
	ssb := sb.NewSelectorSpecBuilder(basicnode.Prototype.Any)
	// every range of short files; for longer ones every range between the
	// points that matter: 0, L and each block boundary with its neighbours
	isPoint := func(int64) bool { return true }
	if L > 64 && c.Kind == "hand" {
		pts := map[int64]bool{0: true, 1: true, L - 1: true, L: true}
		for _, nd := range tree.Nodes() {
			for _, p := range []int64{nd.Start - 1, nd.Start, nd.Start + 1, nd.End - 1, nd.End, nd.End + 1} {
				if p >= 0 && p <= L {
					pts[p] = true
				}
			}
		}
		isPoint = func(p int64) bool { return pts[p] }
	}
	for a := int64(0); a < L; a++ {
		if !isPoint(a) {
			continue
		}
		for b := a + 1; b <= L; b++ {
			if !isPoint(b) {
				continue
			}
			// (a) Seek from start + ReadFull
			rs, _ := lb.AsLargeBytes()
			s.ResetLogs()
			buf := make([]byte, b-a)
			_, err := rs.Seek(a, io.SeekStart)
			if err == nil {
				_, err = io.ReadFull(rs, buf)
			}
			check("seek-start", a, b, buf, err)
			// (b) positioned relative to the end
			if a == 0 || b == L || a%3 == 0 {
				rs, _ := lb.AsLargeBytes()
				s.ResetLogs()
				buf := make([]byte, b-a)
				_, err := rs.Seek(a-L, io.SeekEnd)
				if err == nil {
					_, err = io.ReadFull(rs, buf)
				}
				check("seek-end", a, b, buf, err)
			}
			// (c) subset-matcher traversal consuming the bytes
			if L <= 40 || a%3 == 0 || b%3 == 0 || b == L {
				ls2 := lsFor(s)
				var got []byte
				sel := ssb.ExploreInterpretAs("unixfs", ssb.MatcherSubset(a, b)).Node()
				s.ResetLogs()
				err := walkMatching(ls2, root, sel, func(p traversal.Progress, n datamodel.Node) error {
					bs, err := n.AsBytes()
					got = append(got, bs...)
					return err
				})
				// the traversal loads the root itself: allowed by Needed()
				check("subset-matcher", a, b, got, err)
			}
		}
	}
}

func (c c05Case) runShard(viol func(sig, detail string), r *core.Run) {
	s := store.New()
	es := gen.Leaves(s, c.Names)
	var root cid.Cid
	var err error
	if c.Ref {
		root, _, err = gen.RefShard(s, c.Fanout, es)
	} else {
		root, _, err = gen.OursSharded(s, c.Fanout, es)
	}
	if err != nil {
		viol("build-error", fmt.Sprintf("%s: %v", c, err))
		return
	}
	hm, err := model.Hamt(s, root)
	if err != nil {
		viol("model-error", fmt.Sprintf("%s: %v", c, err))
		return
	}
	ls := lsFor(s)
	rootNode, err := loadRoot(ls, root)
	if err != nil {
		viol("load-root", err.Error())
		return
	}
	if r != nil {
		r.States.Add(1)
	}
	members := map[string]bool{}
	for _, n := range c.Names {
		members[n] = true
	}
	queries := append(append([]string{}, gen.Universe(13)...), "nope", "00k1")
	// warm: one shared node answering all queries in sequence
	s.ResetLogs()
	shared, err := openVia("unixfs", ls, rootNode)
	if err != nil {
		viol("reify-error", fmt.Sprintf("%s: %v", c, err))
		return
	}
	if len(s.Reads()) != 0 {
		viol("reify-fetches", fmt.Sprintf("%s: lazy reification of a shard requested %s", c, shortList(s.Reads())))
	}
	for _, q := range queries {
		path, found := hm.HashPath(q)
		allowed := model.CidSet(path)
		for _, mode := range []string{"cold", "warm"} {
			n := shared
			if mode == "cold" {
				n, err = unixfsnode.Reify(linkCtx(), rootNode, ls)
				if err != nil {
					viol("reify-error", err.Error())
					return
				}
			}
			s.ResetLogs()
			v, err := n.LookupByString(q)
			if r != nil {
				r.Transitions.Add(1)
			}
			if (err == nil) != (found != nil) {
				viol("lookup-result", fmt.Sprintf("%s: lookup(%q) err=%v, model found=%v", c, q, err, found != nil))
				continue
			}
			if err == nil {
				if l, lerr := v.AsLink(); lerr != nil || l.String() != found.Cid.String() {
					viol("lookup-link", fmt.Sprintf("%s: lookup(%q) link %v want %s", c, q, l, found.Cid))
				}
			}
			if x := extraReads(s.Reads(), allowed); len(x) > 0 {
				viol("over-fetch lookup", fmt.Sprintf("%s: lookup(%q) [%s] requested %s; hash path is %s", c, q, mode, shortList(s.Reads()), shortList(path)))
			}
			if mode == "cold" {
				// exactly the hash path when nothing is cached
				if len(s.Reads()) != len(path) {
					viol("fetch-count lookup", fmt.Sprintf("%s: cold lookup(%q) requested %s; hash path is %s", c, q, shortList(s.Reads()), shortList(path)))
				}
			}
		}
	}
}

// c05Concurrent: two goroutines, each with its own reader on ONE shared lazily
// reified node, read two disjoint small ranges; every interleaving within the
// preemption bound is executed under the cooperative scheduler and the blocks
// requested by both together must stay within what the two ranges need.
func c05Concurrent(r *core.Run) {
	type rng struct{ a, b int64 }
	files := []fileCase{
		{Writer: "ours", W: 2, Chunker: "size-3", L: 13, K: 3, Pattern: "distinct"},
		{Writer: "balanced/raw=false/v1=false", W: 2, Chunker: "size-3", L: 12, K: 3, Pattern: "distinct"},
	}
	pairs := [][2]rng{{{0, 2}, {11, 12}}, {{7, 8}, {0, 1}}, {{4, 6}, {4, 6}}}
	bound := 2
	var execs int64
	for _, fc := range files {
		s, root, _, err := fc.build()
		if err != nil {
			r.Violate("build-error", err.Error(), nil)
			continue
		}
		tree, err := model.FileTree(s, root)
		if err != nil {
			r.InternalError(err.Error())
			continue
		}
		content := tree.Content()
		ls := lsFor(s)
		rn, err := loadRoot(ls, root)
		if err != nil {
			r.InternalError(err.Error())
			continue
		}
		for _, pr := range pairs {
			pr := pr
			allowed := tree.Needed(pr[0].a, pr[0].b)
			for k := range tree.Needed(pr[1].a, pr[1].b) {
				allowed[k] = true
			}
			desc := fmt.Sprintf("%s, concurrent reads of [%d,%d) and [%d,%d)", fc, pr[0].a, pr[0].b, pr[1].a, pr[1].b)
			shared := map[string]bool{}
			for round := 0; round < 6; round++ {
				grew := false
				pending := map[string]bool{}
				ex := &xplore.Explorer{Bound: bound, Horizon: 20000, Replay: 1, MaxExecs: 200000, Deadline: time.Now().Add(exploreBudget(r.Quick())), OnDiverge: func(ch []int, a, b string) {
					r.InternalError(fmt.Sprintf("nondeterministic replay %s %v: %q vs %q", desc, ch, a, b))
				}}
				ex.Explore(func(x *xplore.Ctx) string {
					n, err := openVia("unixfs", ls, rn)
					if err != nil {
						return "reify-error"
					}
					lb, ok := n.(datamodel.LargeBytesNode)
					if !ok {
						return "not-large"
					}
					s.ResetLogs()
					s.OnRead = func(cid.Cid, int) error { schedLoadPoint(); return nil }
					body := func(g rng) func() string {
						return func() string {
							rs, err := lb.AsLargeBytes()
							if err != nil {
								return "err:" + err.Error()
							}
							if _, err := rs.Seek(g.a, io.SeekStart); err != nil {
								return "err:" + err.Error()
							}
							buf := make([]byte, g.b-g.a)
							if _, err := io.ReadFull(rs, buf); err != nil {
								return "err:" + err.Error()
							}
							return fmt.Sprintf("%x", buf)
						}
					}
					old := debug.SetGCPercent(-1)
					sc := runScheduled(x, shared, nil, []func() string{body(pr[0]), body(pr[1])})
					debug.SetGCPercent(old)
					s.OnRead = nil
					for st := range sc.promoted {
						if !shared[st] {
							pending[st] = true
							grew = true
						}
					}
					schedCapRun = r.Cap
					if sc.outside() {
						return "unmodelled"
					}
					for i, t := range sc.threads {
						want := fmt.Sprintf("%x", content[pr[i].a:pr[i].b])
						if t.panicv != nil {
							r.Violate("panic concurrent-range-read", fmt.Sprintf("%s: %v (choices %v)", desc, t.panicv, x.Choices), nil)
						} else if t.result != want {
							r.Violate("range-bytes concurrent", fmt.Sprintf("%s: thread %d got %s want %s (choices %v)", desc, i, t.result, want, x.Choices), nil)
						}
					}
					if xr := extraReads(s.Reads(), allowed); len(xr) > 0 {
						r.Violate("over-fetch concurrent "+fc.Writer, fmt.Sprintf("%s: requested %s; needed by neither range: %s (schedule choices %v)", desc, shortList(s.Reads()), shortList(xr), x.Choices), map[string]any{"file": fc, "choices": append([]int{}, x.Choices...)})
					}
					return fmt.Sprint(len(s.Reads()))
				}, func(res xplore.Result) {
					if res.Panic != nil {
						r.Violate("panic scheduler", fmt.Sprint(res.Panic), nil)
					}
				})
				execs += int64(ex.Stats.Executions)
				r.Transitions.Add(int64(ex.Stats.ChoicePoints))
				if ex.Stats.Capped {
					r.Cap(fmt.Sprintf("execution / time budget hit: concurrent ranges on %s after %d executions", desc, ex.Stats.Executions))
					break
				}
				if !grew {
					break
				}
				next := map[string]bool{}
				for k := range shared {
					next[k] = true
				}
				for k := range pending {
					next[k] = true
				}
				shared = next
			}
			r.States.Add(1)
			r.Distinct(desc)
		}
	}
	r.Evaluations.Add(execs)
	r.Set("concurrent_schedules_executed", execs)
	r.Set("concurrent_preemption_bound_completed", bound)
	r.Set("instrumentation", os.Getenv("VERIF_INSTR"))
	noteDegraded(r)
}

// c05DeclaredShort: roots whose FileSize is not the sum of their BlockSizes
// (hand-written, two bytes short: FileSize is a hint, the content is the
// concatenation of the leaves). Positioning inside the file goes by the block
// sizes, which are right, so every range that ends inside the declared size is
// served from exactly the blocks it intersects. (End-relative operations go by
// the declared size and are not judged here.)
func c05DeclaredShort(r *core.Run) {
	n := 0
	for _, h := range gen.HandLiars() {
		if h.Lie != "filesize-under" || h.LeafKind != "pbfile" || strings.Contains(h.Label, "empty") {
			continue
		}
		s := store.New()
		root, content := h.Build(s)
		tree, err := model.FileTree(s, root)
		if err != nil {
			r.InternalError("model: " + err.Error())
			continue
		}
		ls := lsFor(s)
		rn, err := loadRoot(ls, root)
		if err != nil {
			continue
		}
		declared := int64(len(content)) - 2
		for a := int64(0); a < declared; a++ {
			for b := a + 1; b <= declared; b++ {
				nd, err := openVia("unixfs", ls, rn)
				if err != nil {
					r.Violate("reify-error declared-short", h.Label+": "+err.Error(), nil)
					return
				}
				lb, ok := nd.(datamodel.LargeBytesNode)
				if !ok {
					continue
				}
				rs, _ := lb.AsLargeBytes()
				s.ResetLogs()
				buf := make([]byte, b-a)
				_, serr := rs.Seek(a, io.SeekStart)
				_, rerr := io.ReadFull(rs, buf)
				n++
				if serr != nil || rerr != nil || !bytes.Equal(buf, content[a:b]) {
					r.Violate("range-bytes declared-short", fmt.Sprintf("%s [%d,%d): seek err=%v read err=%v got %x want %x", h.Label, a, b, serr, rerr, buf, content[a:b]), c05Case{Kind: "hand", Hand: h.Label})
					continue
				}
				if xr := extraReads(s.Reads(), tree.Needed(a, b)); len(xr) > 0 {
					r.Violate("over-fetch declared-short", fmt.Sprintf("%s [%d,%d): requested %s; not needed: %s", h.Label, a, b, shortList(s.Reads()), shortList(xr)), c05Case{Kind: "hand", Hand: h.Label})
				}
			}
		}
	}
	r.Evaluations.Add(int64(n))
	r.Transitions.Add(int64(n))
	r.Set("declared_short_ranges", n)
}

func runC05(r *core.Run) {
	c05DeclaredShort(r)
	if overlayActive {
		c05Concurrent(r)
	} else {
		r.Cap("plain build: the concurrent range-read part needs the instrumented overlay (run through run.sh)")
	}
	r.Rule("bounded-exhaustive: every range 0<=a<b<=L of every file shape (w in {2,3}, chunk 3; this builder + reference writers) via Seek+ReadFull, end-relative positioning and a subset-matcher traversal; every pair of short requests [a,b) then [c,d) on one reader (second request positioned with a relative seek); every member/non-member lookup on every sharded directory of the universe subsets (cold and warm cache); every path of every small tree; oracle: requested links ⊆ blocks whose span intersects the range + ancestors / shards on the hash path / blocks on the path (independent model over stored blocks)")
	r.Assume("file DAGs: those produced by the two writers, and hand-written encodings in which every child size is recorded where the reader looks for it (BlockSizes for dag-pb children, Tsize for raw leaves; links may lack Tsize otherwise)")
	var cases []c05Case
	var files []fileCase
	writers := []string{"ours", "balanced/raw=true/v1=true", "balanced/raw=false/v1=false", "trickle/raw=false/v1=true", "trickle/raw=true/v1=true"}
	if r.Quick() {
		files = smallFileFamily([]int{2}, []int{3}, []string{"distinct", "equal"}, writers[:3])
		files = append(files, smallFileFamily([]int{3}, []int{3}, []string{"distinct"}, []string{"ours", writers[3]})...)
	} else {
		files = smallFileFamily([]int{2, 3}, []int{3}, []string{"distinct", "equal"}, allWriters())
		files = append(files, smallFileFamily([]int{2, 4}, []int{2}, []string{"distinct"}, writers)...)
	}
	for _, f := range files {
		if f.L > 60 && r.Quick() {
			continue
		}
		cases = append(cases, c05Case{Kind: "file", File: f})
		// the file package used directly, over a typed and over an untyped root
		// (trees of 3+ levels: the root's children are dag-pb nodes)
		if f.L > f.W*f.K && f.L%2 == 1 {
			cases = append(cases, c05Case{Kind: "file", File: f, Opener: "NewUnixFSFile"}, c05Case{Kind: "file", File: f, Opener: "NewUnixFSFile-any"})
		}
	}
	// hand-written encodings on which laziness can be exact (every child's size
	// recorded where the reader looks for it), incl. links without Tsize
	for _, h := range gen.HandFamily() {
		if h.LazyExact() {
			cases = append(cases, c05Case{Kind: "hand", Hand: h.Label})
			cases = append(cases, c05Case{Kind: "hand", Hand: h.Label, Opener: "NewUnixFSFile-any"})
		}
	}
	usize := 9
	fanouts := []int{8, 16, 256}
	if !r.Quick() {
		usize = 11
		fanouts = []int{8, 16, 32, 64, 128, 256, 512, 1024}
	}
	u := gen.Universe(usize)
	for mask := 1; mask < 1<<uint(len(u)); mask++ {
		for _, f := range fanouts {
			cases = append(cases, c05Case{Kind: "shard", Fanout: f, Names: gen.SubsetOf(u, mask)})
			if mask%5 == 0 {
				cases = append(cases, c05Case{Kind: "shard", Fanout: f, Names: gen.SubsetOf(u, mask), Ref: true})
			}
		}
	}
	for _, t := range pathTrees(r.Quick()) {
		t := t
		cases = append(cases, c05Case{Kind: "path", Tree: &t})
	}
	groups := map[int][]c05Case{}
	for _, c := range cases {
		groups[c.File.W] = append(groups[c.File.W], c)
	}
	for _, w := range []int{0, 2, 3, 4} {
		g := groups[w]
		core.ParallelFor(len(g), workers, func(i int) {
			c := g[i]
			r.Evaluations.Add(1)
			r.Distinct(c.String())
			if i%397 == 0 {
				r.Sample(c.String())
			}
			c.run(func(sig, detail string) { r.Violate(sig, detail, c) }, r)
		})
	}
}

// pathAllowed computes, from the model, the blocks a lazy resolution of segs
// may request: the blocks on the path plus, in sharded directories, the shards
// on each segment's hash path.
func pathAllowed(s *store.Store, t *builtTree, segs []string) (map[string]bool, error) {
	allowed := map[string]bool{t.Cid.KeyString(): true}
	cur := t
	for _, seg := range segs {
		if cur.Children == nil {
			break
		}
		if cur.Kind == "hamt" {
			hm, err := model.Hamt(s, cur.Cid)
			if err != nil {
				return nil, err
			}
			p, _ := hm.HashPath(seg)
			for _, c := range p {
				allowed[c.KeyString()] = true
			}
		}
		nx, ok := cur.Children[seg]
		if !ok {
			break
		}
		allowed[nx.Cid.KeyString()] = true
		cur = nx
	}
	return allowed, nil
}

func (c c05Case) runPaths(viol func(sig, detail string), r *core.Run) {
	s := store.New()
	seed := 0
	t, err := c.Tree.build(s, &seed)
	if err != nil {
		viol("build-error", fmt.Sprintf("%s: %v", c, err))
		return
	}
	if r != nil {
		r.States.Add(1)
	}
	tried := map[string]bool{}
	for _, segs := range t.allPaths() {
		same, other := pathVariants(segs)
		for _, p := range append(same, other...) {
			if tried[p] {
				continue
			}
			tried[p] = true
			psegs := splitPath(p)
			allowed, err := pathAllowed(s, t, psegs)
			if err != nil {
				viol("model-error", err.Error())
				return
			}
			ls := lsFor(s)
			s.ResetLogs()
			sel := unixfsnode.UnixFSPathSelectorBuilder(p, unixfsnode.MatchUnixFSSelector, false)
			panicked, pv := core.Guard(func() {
				_ = walkMatching(ls, t.Cid, sel, func(traversal.Progress, datamodel.Node) error { return nil })
			})
			if r != nil {
				r.Transitions.Add(1)
			}
			if panicked {
				viol("panic path-walk", fmt.Sprintf("%s path %q: %v", c, p, pv))
				continue
			}
			if x := extraReads(s.Reads(), allowed); len(x) > 0 {
				viol("over-fetch path", fmt.Sprintf("%s path %q: requested %s, of which not on the path: %s", c, p, shortList(s.Reads()), shortList(x)))
			}
		}
	}
}
