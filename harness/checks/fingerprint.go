package checks

import (
	"fmt"
	"reflect"
	"sort"
	"strings"
	"unsafe"
)

// fingerprint renders the private state reachable from v — including
// unexported fields — as a canonical string: scalar values, lengths, nil-ness
// and structure, never addresses. It recurses only into types defined by the
// module under test and a few standard-library containers (io, sync, bytes),
// so immutable substrates (dag-pb nodes, link systems, contexts) are opaque.
// It is the explicit-state search's state key: everything the implementation
// could remember between calls is in it, so merged states really have the
// same futures.
func fingerprint(v any) string {
	var b strings.Builder
	fp(reflect.ValueOf(v), &b, map[uintptr]int{}, 0)
	return b.String()
}

func fpRecurseInto(t reflect.Type) bool {
	p := t.PkgPath()
	if p == "" {
		return true // unnamed composite types
	}
	return strings.HasPrefix(p, "github.com/ipfs/go-unixfsnode") || p == "io" || p == "sync" || p == "sync/atomic" || p == "bytes" || p == "bufio" || p == "strings"
}

func fp(v reflect.Value, b *strings.Builder, seen map[uintptr]int, depth int) {
	if depth > 24 {
		b.WriteString("…")
		return
	}
	if !v.IsValid() {
		b.WriteString("nil")
		return
	}
	switch v.Kind() {
	case reflect.Bool:
		fmt.Fprintf(b, "%v", v.Bool())
	case reflect.Int, reflect.Int8, reflect.Int16, reflect.Int32, reflect.Int64:
		fmt.Fprintf(b, "%d", v.Int())
	case reflect.Uint, reflect.Uint8, reflect.Uint16, reflect.Uint32, reflect.Uint64, reflect.Uintptr:
		fmt.Fprintf(b, "%d", v.Uint())
	case reflect.Float32, reflect.Float64:
		fmt.Fprintf(b, "%g", v.Float())
	case reflect.String:
		fmt.Fprintf(b, "%q", v.String())
	case reflect.Ptr:
		if v.IsNil() {
			b.WriteString("nil")
			return
		}
		if !fpRecurseInto(v.Type().Elem()) {
			b.WriteString("&" + v.Type().Elem().String())
			return
		}
		if n, ok := seen[v.Pointer()]; ok {
			fmt.Fprintf(b, "^%d", n)
			return
		}
		seen[v.Pointer()] = len(seen)
		b.WriteString("&")
		fp(v.Elem(), b, seen, depth+1)
	case reflect.Interface:
		if v.IsNil() {
			b.WriteString("nil")
			return
		}
		fp(v.Elem(), b, seen, depth+1)
	case reflect.Struct:
		t := v.Type()
		if !fpRecurseInto(t) {
			b.WriteString(t.String())
			return
		}
		b.WriteString(t.Name() + "{")
		for i := 0; i < v.NumField(); i++ {
			f := v.Field(i)
			b.WriteString(t.Field(i).Name + ":")
			if !f.CanInterface() {
				if !f.CanAddr() {
					// a struct stored by value behind an interface or in a map:
					// its unexported fields cannot be reached without a copy
					b.WriteString("<" + f.Type().String() + ">")
					continue
				}
				f = reflect.NewAt(f.Type(), unsafe.Pointer(f.UnsafeAddr())).Elem()
			}
			fp(f, b, seen, depth+1)
			b.WriteString(" ")
		}
		b.WriteString("}")
	case reflect.Slice, reflect.Array:
		if v.Kind() == reflect.Slice && v.IsNil() {
			b.WriteString("nil")
			return
		}
		if v.Type().Elem().Kind() == reflect.Uint8 {
			fmt.Fprintf(b, "bytes[%d]", v.Len())
			return
		}
		fmt.Fprintf(b, "[%d:", v.Len())
		for i := 0; i < v.Len() && i < 64; i++ {
			fp(v.Index(i), b, seen, depth+1)
			b.WriteString(",")
		}
		b.WriteString("]")
	case reflect.Map:
		if v.IsNil() {
			b.WriteString("nil")
			return
		}
		var ents []string
		it := v.MapRange()
		for it.Next() {
			var kb, vb strings.Builder
			fp(it.Key(), &kb, seen, depth+1)
			fp(it.Value(), &vb, seen, depth+1)
			ents = append(ents, kb.String()+"=>"+vb.String())
		}
		sort.Strings(ents)
		fmt.Fprintf(b, "map[%d]{%s}", v.Len(), strings.Join(ents, ";"))
	case reflect.Func, reflect.Chan, reflect.UnsafePointer:
		if v.IsNil() {
			b.WriteString("nil")
		} else {
			b.WriteString(v.Kind().String())
		}
	default:
		b.WriteString(v.Kind().String())
	}
}
