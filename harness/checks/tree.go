package checks

import (
	"bytes"
	"fmt"
	"sort"
	"strings"

	"github.com/ipfs/go-cid"
	"github.com/ipfs/go-unixfsnode/data/builder"
	"github.com/ipld/go-ipld-prime"
	cidlink "github.com/ipld/go-ipld-prime/linking/cid"

	"verif/harness/gen"
	"verif/harness/model"
	"verif/harness/store"
)

func linkCtx() ipld.LinkContext { return ipld.LinkContext{} }

// treeSpec describes a small UnixFS tree. Kinds: "f1" single-block file,
// "fN" multi-block file (w=2, chunk 3, 5 chunks), "dir" plain directory,
// "hamt" sharded directory (fanout 8), "sym" symlink.
type treeSpec struct {
	Kind     string     `json:"kind"`
	Children []treeSpec `json:"children,omitempty"`
}

func (t treeSpec) String() string {
	if len(t.Children) == 0 {
		return t.Kind
	}
	parts := make([]string, len(t.Children))
	for i, c := range t.Children {
		parts[i] = c.String()
	}
	return t.Kind + "(" + strings.Join(parts, " ") + ")"
}

func (t treeSpec) nodes() int {
	n := 1
	for _, c := range t.Children {
		n += c.nodes()
	}
	return n
}

// "dirU": a plain directory whose block lists its links in descending name
// order (a legal block: only encoders sort, decoders keep the wire order)
var treeKinds = []string{"f1", "fN", "sym", "dir", "dirU", "hamt"}

func kindRank(k string) int {
	for i, x := range treeKinds {
		if x == k {
			return i
		}
	}
	return -1
}

// childNames returns the entry names used for the i-th child of a directory of
// the given kind: awkward names for plain directories, hash-colliding names
// for sharded ones (so that fanout 8 nests several shard levels).
func childNames(kind string, rot int) []string {
	// names that differ only by leading/trailing white space are siblings on
	// purpose: a selector that normalises its path would confuse them; names
	// that parse as integers sit at positions other than their value: a lookup
	// that treats such a segment as an index finds the wrong entry
	if kind == "hamt" {
		c := gen.Colliders("k", 12, 3)
		// sp: a member whose proper suffix (absent) hashes into the same buckets
		// for 4 levels: the lookup of the suffix ends at the member's link
		sp, _ := gen.SuffixPair(12, c[0])
		return [][]string{
			{c[0], c[1], c[0] + " ", c[2], "é", ".."},
			{"1", c[0], c[1], "0", "-1", c[2]},
			{c[0], c[1], "07", "..", c[2], "2"},
			{sp, c[0], c[1], "00", c[2], "é"},
			{"00", sp, c[0], c[1], "2", c[2]},
			// names longer than any fixed-size scratch buffer a lookup might
			// hash them in (65, 129 and 300 bytes; multi-byte ones too)
			{strings.Repeat("n", 65), c[0], strings.Repeat("語", 43), c[1], strings.Repeat("long-name/", 0) + strings.Repeat("q", 300), c[2]},
			// two child shards under the root (buckets 1 and 5 at fanout 8), in
			// either order of insertion
			{gen.BucketProbeNames[6][8], gen.BucketProbeNames[6][40], gen.BucketProbeNames[6][9], gen.BucketProbeNames[6][41], c[0], "é"},
			{gen.BucketProbeNames[6][16], gen.BucketProbeNames[6][17], gen.BucketProbeNames[6][8], gen.BucketProbeNames[6][9], gen.BucketProbeNames[6][0], c[1]},
		}[rot%8]
	}
	return [][]string{
		{"a", "a ", "é", " a", "..", "%2F"},
		{"1", "0", "a", "-1", "07", "+5"},
		{"%2F", "..", " a", "a", "2", "é"},
		{"2024", "a", "2", "1", "a ", "0"},
		{strings.Repeat("n", 65), "a", strings.Repeat("語", 43), "1", strings.Repeat("q", 300), "é"},
	}[rot%5]
}

// nameRot picks the name list of a directory from its shape (FNV of the
// spec), so that every list is used by many shapes of every size.
func nameRot(t treeSpec) int {
	h := uint32(2166136261)
	for _, b := range []byte(t.String()) {
		h = (h ^ uint32(b)) * 16777619
	}
	return int(h>>8) % 60
}

// enumTrees lists every tree with at most maxNodes nodes whose children are in
// non-decreasing kind order (child names are positional, so other orders are
// renamings).
func enumTrees(maxNodes int) []treeSpec {
	var trees func(budget int) []treeSpec
	var forests func(budget, minRank, maxCount int) [][]treeSpec
	trees = func(budget int) []treeSpec {
		var out []treeSpec
		if budget < 1 {
			return nil
		}
		for _, k := range treeKinds {
			if k == "dir" || k == "dirU" || k == "hamt" {
				for _, f := range forests(budget-1, 0, 6) {
					out = append(out, treeSpec{Kind: k, Children: f})
				}
			} else {
				out = append(out, treeSpec{Kind: k})
			}
		}
		return out
	}
	forests = func(budget, minRank, maxCount int) [][]treeSpec {
		out := [][]treeSpec{nil}
		if budget < 1 || maxCount < 1 {
			return out
		}
		for _, first := range trees(budget) {
			if kindRank(first.Kind) < minRank {
				continue
			}
			for _, rest := range forests(budget-first.nodes(), kindRank(first.Kind), maxCount-1) {
				out = append(out, append([]treeSpec{first}, rest...))
			}
		}
		return out
	}
	return trees(maxNodes)
}

// builtTree is a tree written into a store together with what the model knows
// about it.
type builtTree struct {
	Kind     string
	Cid      cid.Cid
	Size     uint64
	Content  []byte // files; symlink target for "sym"
	Names    []string
	Children map[string]*builtTree
}

func (t treeSpec) build(s *store.Store, seed *int) (*builtTree, error) {
	*seed++
	id := *seed
	switch t.Kind {
	case "f1", "fN":
		L := 2
		if t.Kind == "fN" {
			L = 13 + id%3
		}
		content := gen.Content(L, 3, "distinct")
		for i := range content {
			content[i] ^= byte(id * 17)
		}
		if t.Kind == "fN" {
			// chunks A A B A C: byte-identical chunks as siblings under one node
			// (link width 2) and under different nodes (a reader that opens a
			// shared block once must still deliver it every time)
			copy(content[3:6], content[0:3])
			copy(content[9:12], content[0:3])
		}
		var c cid.Cid
		var sz uint64
		var err error
		gen.WithWidth(2, func() { c, sz, err = gen.BuildOurs(s, bytes.NewReader(content), "size-3") })
		if err != nil {
			return nil, err
		}
		return &builtTree{Kind: t.Kind, Cid: c, Size: sz, Content: content}, nil
	case "fE":
		// the classic encoding of an empty file: a dag-pb UnixFS File node with
		// neither Data field nor links (what other writers store for it)
		blk := model.EncodePB(&model.PBNode{Data: []byte{0x08, 0x02, 0x18, 0x00}, HasData: true})
		c, _ := gen.V1PB.Sum(blk)
		s.Put(c, blk)
		return &builtTree{Kind: "fE", Cid: c, Size: uint64(len(blk)), Content: []byte{}}, nil
	case "fH1":
		// a hand-written file whose root has exactly one link (to an interior node)
		spec, ok := gen.HandByLabel("hand 1x2 leaves=raw blocksizes=all filesize=true")
		if !ok {
			return nil, fmt.Errorf("hand-written DAG family changed")
		}
		c, content := spec.Build(s)
		sz, err := model.TreeSum(s, c)
		if err != nil {
			return nil, err
		}
		return &builtTree{Kind: "fH1", Cid: c, Size: sz, Content: content}, nil
	case "fU":
		// a hand-written multi-block file whose interior nodes record no block
		// sizes over dag-pb leaves (the reader has to measure the children)
		spec, ok := gen.HandByLabel("hand 2x2 leaves=pbfile blocksizes=none filesize=true")
		if !ok {
			return nil, fmt.Errorf("hand-written DAG family changed")
		}
		c, content := spec.Build(s)
		sz, err := model.TreeSum(s, c)
		if err != nil {
			return nil, err
		}
		return &builtTree{Kind: "fU", Cid: c, Size: sz, Content: content}, nil
	case "fR":
		// a hand-written multi-block file whose nodes carry UnixFS type Raw
		spec, ok := gen.HandByLabel("hand 2x2 leaves=raw blocksizes=all filesize=true nodetype=raw")
		if !ok {
			return nil, fmt.Errorf("hand-written DAG family changed")
		}
		c, content := spec.Build(s)
		sz, err := model.TreeSum(s, c)
		if err != nil {
			return nil, err
		}
		return &builtTree{Kind: "fR", Cid: c, Size: sz, Content: content}, nil
	case "fL":
		// a hand-written file whose root under-declares the middle child's size
		// (link Tsize 1): the file's bytes are still the concatenation of its leaves
		spec, ok := gen.HandByLabel("hand-liar 3 leaves=raw tsize-under-mid")
		if !ok {
			return nil, fmt.Errorf("hand-written DAG family changed")
		}
		c, content := spec.Build(s)
		sz, err := model.TreeSum(s, c)
		if err != nil {
			return nil, err
		}
		return &builtTree{Kind: "fL", Cid: c, Size: sz, Content: content}, nil
	case "sym":
		target := fmt.Sprintf("../target-%d", id)
		l, sz, err := builder.BuildUnixFSSymlink(target, s.LinkSystem())
		if err != nil {
			return nil, err
		}
		return &builtTree{Kind: "sym", Cid: l.(cidlink.Link).Cid, Size: sz, Content: []byte(target)}, nil
	case "dir", "dirU", "hamt", "hamtM", "hamt2":
		bt := &builtTree{Kind: t.Kind, Children: map[string]*builtTree{}}
		nk := t.Kind
		if nk == "hamtM" {
			nk, bt.Kind = "hamt", "hamt" // same names; the model reads it like any HAMT
		}
		names := childNames(nk, nameRot(t))
		if nk == "hamt2" {
			// a sharded directory (fanout 8) whose root holds two child shards
			// (buckets 1 and 5) and a value link in bucket 0
			nk, bt.Kind = "hamt", "hamt"
			p := gen.BucketProbeNames[6]
			names = []string{p[8], p[40], p[9], p[41], p[0], p[42]}
		}
		var es []gen.DirEntry
		for i, ch := range t.Children {
			b, err := ch.build(s, seed)
			if err != nil {
				return nil, err
			}
			bt.Children[names[i]] = b
			bt.Names = append(bt.Names, names[i])
			es = append(es, gen.DirEntry{Name: names[i], Cid: b.Cid, Tsize: b.Size})
		}
		var err error
		if t.Kind == "hamtM" {
			// root fanout 8, shards below it fanout 16 (same prefix width)
			bt.Cid, bt.Size, err = gen.MixedHamt(s, es, []int{8, 16})
		} else if (t.Kind == "hamt" || t.Kind == "hamt2") && len(es) > 0 {
			bt.Cid, bt.Size, err = gen.OursSharded(s, 8, es)
		} else if t.Kind == "hamt" {
			// an empty sharded directory can only come from the reference writer
			bt.Cid, bt.Size, err = gen.RefShard(s, 8, nil)
		} else if t.Kind == "dirU" {
			pn := &model.PBNode{Data: []byte{0x08, 0x01}, HasData: true}
			sorted := append([]gen.DirEntry{}, es...)
			sort.Slice(sorted, func(i, j int) bool { return sorted[i].Name > sorted[j].Name })
			total := uint64(0)
			for _, e := range sorted {
				pn.Links = append(pn.Links, model.PBLink{Cid: e.Cid, Name: e.Name, HasName: true, Tsize: e.Tsize, HasTsize: true})
				total += e.Tsize
			}
			blk := model.EncodePB(pn)
			bt.Cid, _ = gen.V1PB.Sum(blk)
			s.Put(bt.Cid, blk)
			bt.Size = total + uint64(len(blk))
		} else {
			bt.Cid, bt.Size, err = gen.OursDir(s, es)
		}
		if err != nil {
			return nil, err
		}
		return bt, nil
	}
	return nil, fmt.Errorf("unknown kind %q", t.Kind)
}

// resolve follows literal segments from t; nil when the path names nothing.
// trail lists the nodes passed (root first, target last, as far as resolved).
func (t *builtTree) resolve(segs []string) (target *builtTree, trail []*builtTree) {
	cur := t
	trail = []*builtTree{t}
	for _, s := range segs {
		if cur.Children == nil {
			return nil, trail
		}
		nx, ok := cur.Children[s]
		if !ok {
			return nil, trail
		}
		cur = nx
		trail = append(trail, cur)
	}
	return cur, trail
}

// splitPath is the model of ipld.ParsePath: split on '/', drop empty segments,
// everything else literal.
func splitPath(p string) []string {
	var out []string
	for _, s := range strings.Split(p, "/") {
		if s != "" {
			out = append(out, s)
		}
	}
	return out
}

// allPaths lists the path of every node of the tree.
func (t *builtTree) allPaths() [][]string {
	out := [][]string{nil}
	for _, n := range t.Names {
		for _, p := range t.Children[n].allPaths() {
			out = append(out, append([]string{n}, p...))
		}
	}
	return out
}

// pathVariants returns path strings to try for a segment list: the canonical
// form, slash-decorated equivalents and perturbations that name something
// else (or nothing).
func pathVariants(segs []string) (same []string, other []string) {
	canon := strings.Join(segs, "/")
	same = []string{canon, "/" + canon, canon + "/", "//" + strings.Join(segs, "//") + "//"}
	if len(segs) == 0 {
		same = []string{"", "/", "//"}
	}
	ins := func(i int, s string) string {
		x := append(append(append([]string{}, segs[:i]...), s), segs[i:]...)
		return strings.Join(x, "/")
	}
	for i := 0; i <= len(segs); i++ {
		// ... incl. the field names of the dag-pb substrate: IPLD addressing of
		// the underlying node ("Links/0/Hash") is not UnixFS naming
		for _, s := range []string{".", "..", "%20", "nope", "0", "1", "-1", "Links", "Data", "Links/0/Hash"} {
			other = append(other, ins(i, s))
		}
	}
	if len(segs) > 0 {
		// white space is legal in names: decorated paths name other entries
		for _, ws := range []string{" ", "\t", "\n", "\u00a0", "\u3000"} {
			other = append(other, canon+ws, ws+canon, canon+ws+"/", "/"+ws+canon)
		}
		last := segs[len(segs)-1]
		head := strings.Join(segs[:len(segs)-1], "/")
		if head != "" {
			head += "/"
		}
		if len(last) > 1 {
			other = append(other, head+last[:len(last)-1])
		}
		other = append(other, head+last+"x", head+strings.ToUpper(last)+"_", head+"00"+last)
		// every proper suffix of the last segment (a lookup that compares name
		// tails instead of names would accept one that hashes alike)
		for i := 1; i < len(last); i++ {
			if last[i]&0xC0 != 0x80 { // rune boundary
				other = append(other, head+last[i:])
			}
		}
	}
	return
}

// pathTrees is the tree family shared by C03/C05/C20.
func pathTrees(quick bool) []treeSpec {
	ts := enumTrees(5)
	if quick {
		ts = enumTrees(4)
	}
	// sharded directories whose levels have different fanouts (kind "hamtM":
	// written by the harness, entries placed by their hash)
	f1, fN, sym := treeSpec{Kind: "f1"}, treeSpec{Kind: "fN"}, treeSpec{Kind: "sym"}
	m := func(ch ...treeSpec) treeSpec { return treeSpec{Kind: "hamtM", Children: ch} }
	ts = append(ts, m(f1, f1, f1), m(f1, fN, sym, f1), m(f1, f1, f1, f1, f1, f1),
		treeSpec{Kind: "dir", Children: []treeSpec{m(f1, f1, fN), f1}},
		m(treeSpec{Kind: "dir", Children: []treeSpec{f1}}, f1, m(f1, f1, f1)),
		treeSpec{Kind: "hamt", Children: []treeSpec{m(f1, f1, f1), f1, f1}},
		treeSpec{Kind: "fL"},
		treeSpec{Kind: "dir", Children: []treeSpec{{Kind: "fL"}, f1}},
		treeSpec{Kind: "hamt", Children: []treeSpec{f1, {Kind: "fL"}, fN}},
		treeSpec{Kind: "fE"}, treeSpec{Kind: "fH1"},
		treeSpec{Kind: "dir", Children: []treeSpec{{Kind: "fE"}, {Kind: "fH1"}, f1}},
		treeSpec{Kind: "hamt", Children: []treeSpec{{Kind: "fH1"}, {Kind: "fE"}, f1, f1}},
		treeSpec{Kind: "hamt2", Children: []treeSpec{f1, f1, f1, f1}},
		treeSpec{Kind: "hamt2", Children: []treeSpec{f1, f1, f1, f1, f1, fN}},
		treeSpec{Kind: "dir", Children: []treeSpec{{Kind: "hamt2", Children: []treeSpec{f1, f1, f1, f1, f1}}, f1}},
		treeSpec{Kind: "fU"},
		treeSpec{Kind: "dir", Children: []treeSpec{{Kind: "fU"}, f1}},
		treeSpec{Kind: "fR"},
		treeSpec{Kind: "dir", Children: []treeSpec{{Kind: "fR"}, f1}},
		treeSpec{Kind: "hamt", Children: []treeSpec{f1, {Kind: "fR"}}})
	return ts
}
