package checks

import (
	"fmt"
	"sort"

	dagpb "github.com/ipld/go-codec-dagpb"
	"github.com/ipld/go-ipld-prime"
	"github.com/ipld/go-ipld-prime/datamodel"
	basicnode "github.com/ipld/go-ipld-prime/node/basic"

	"github.com/ipfs/go-unixfsnode/iter"
)

// nativeDir is the native (non-ipld.Node) accessor set all directory ADLs of
// the library expose.
type nativeDir interface {
	Iterator() *iter.UnixFSDir__Itr
	Lookup(key dagpb.String) dagpb.Link
}

// kv is one yielded pair.
type kv struct {
	K string
	V string // link as string
}

// iterateMap drains MapIterator with a step bound. Errors are returned with
// what was yielded so far.
func iterateMap(n datamodel.Node, bound int) (out []kv, errs []error, terminated bool) {
	it := n.MapIterator()
	if it == nil {
		return nil, []error{fmt.Errorf("nil MapIterator")}, true
	}
	var keptK, keptV []datamodel.Node
	for steps := 0; !it.Done(); steps++ {
		if steps >= bound {
			return out, errs, false
		}
		k, v, err := it.Next()
		if err != nil {
			errs = append(errs, err)
			continue
		}
		ks, err := k.AsString()
		if err != nil {
			errs = append(errs, err)
			continue
		}
		l, err := v.AsLink()
		if err != nil {
			errs = append(errs, err)
			continue
		}
		out = append(out, kv{ks, l.String()})
		keptK, keptV = append(keptK, k), append(keptV, v)
	}
	// the nodes an iterator yields are values: kept until the iteration is over
	// they still say what they said when they were yielded
	for i := range keptV {
		ks, _ := keptK[i].AsString()
		l, err := keptV[i].AsLink()
		after := "error"
		if err == nil {
			after = l.String()
		}
		if ks != out[i].K || after != out[i].V {
			out[i].V = fmt.Sprintf("ALIASED-ITERATOR-VALUE(yielded %s=%s, after the iteration the same nodes say %s=%s)", out[i].K, out[i].V, ks, after)
		}
	}
	return out, errs, true
}

// iterateByCount calls Next() exactly count times without consulting Done()
// in between (a legal way to drive a MapIterator when the length is known).
func iterateByCount(n datamodel.Node, count int) (out []kv, problem string) {
	it := n.MapIterator()
	if it == nil {
		return nil, "nil MapIterator"
	}
	for i := 0; i < count; i++ {
		k, v, err := it.Next()
		if err != nil {
			return out, fmt.Sprintf("Next() #%d of %d without asking Done(): %v", i+1, count, err)
		}
		ks, _ := k.AsString()
		l, err := v.AsLink()
		if err != nil {
			return out, fmt.Sprintf("Next() #%d of %d: value is not a link: %v", i+1, count, err)
		}
		out = append(out, kv{ks, l.String()})
	}
	if !it.Done() {
		return out, fmt.Sprintf("not Done() after %d entries", count)
	}
	return out, ""
}

func clipKVs(p []kv) string {
	s := fmt.Sprint(p)
	if len(s) > 160 {
		s = s[:160] + "…"
	}
	return s
}

func iterateNative(n nativeDir, bound int) (out []kv, terminated bool) {
	it := n.Iterator()
	for steps := 0; !it.Done(); steps++ {
		if steps >= bound {
			return out, false
		}
		k, v := it.Next()
		if k == nil || v == nil {
			continue
		}
		out = append(out, kv{k.String(), v.Link().String()})
	}
	return out, true
}

func pbString(s string) dagpb.String {
	nb := dagpb.Type.String.NewBuilder()
	nb.AssignString(s)
	return nb.Build().(dagpb.String)
}

// lookupAll queries the four lookup entry points; each result is the link
// string or "" for not-found; errs carries unexpected disagreement text.
func lookupAll(n datamodel.Node, key string) (res [4]string, err0 error) {
	get := func(v datamodel.Node, err error) (out string) {
		if err != nil || v == nil {
			return ""
		}
		// a "found" value that cannot be read (a typed nil inside the
		// interface) is not a miss
		defer func() {
			if p := recover(); p != nil {
				out = fmt.Sprintf("!found-but-unreadable(%v)", p)
			}
		}()
		l, err := v.AsLink()
		if err != nil {
			return "!notlink"
		}
		return l.String()
	}
	v, err := n.LookupByString(key)
	err0 = err
	res[0] = get(v, err)
	res[1] = get(n.LookupByNode(basicnode.NewString(key)))
	// the key as the directory iterators themselves hand it out (a dag-pb
	// typed string) and as a plain string node: one answer
	if typed := get(n.LookupByNode(pbString(key))); typed != res[1] {
		res[1] = fmt.Sprintf("!LookupByNode(basicnode string)=%q but LookupByNode(dagpb string)=%q", res[1], typed)
	}
	res[2] = get(n.LookupBySegment(ipld.PathSegmentOfString(key)))
	if nd, ok := n.(nativeDir); ok {
		l := nd.Lookup(pbString(key))
		if l == nil {
			res[3] = ""
		} else {
			res[3] = l.Link().String()
		}
	} else {
		res[3] = res[0]
	}
	return
}

// mapView checks a reified directory node against the expected map
// (name -> link string). nonMembers are additional names that must be absent.
func mapView(n datamodel.Node, want map[string]string, nonMembers []string, viol func(sig, detail string)) {
	if n.Kind() != datamodel.Kind_Map {
		viol("dir-kind", fmt.Sprintf("kind %v", n.Kind()))
		return
	}
	if got := n.Length(); got != int64(len(want)) {
		viol("dir-length", fmt.Sprintf("Length()=%d want %d", got, len(want)))
	}
	pairs, errs, term := iterateMap(n, 4*len(want)+16)
	if !term {
		viol("dir-iter-nonterminating", "MapIterator did not finish")
	}
	if len(errs) > 0 {
		viol("dir-iter-error", fmt.Sprintf("%v", errs[0]))
	}
	checkPairs := func(kind string, pairs []kv) {
		seen := map[string]bool{}
		for _, p := range pairs {
			if seen[p.K] {
				viol("dir-iter-duplicate "+kind, fmt.Sprintf("key %q yielded twice", p.K))
			}
			seen[p.K] = true
			if w, ok := want[p.K]; !ok {
				viol("dir-iter-extra "+kind, fmt.Sprintf("yielded key %q which is not an entry", p.K))
			} else if w != p.V {
				viol("dir-iter-link "+kind, fmt.Sprintf("key %q yielded link %s want %s", p.K, p.V, w))
			}
		}
		for k := range want {
			if !seen[k] {
				viol("dir-iter-missing "+kind, fmt.Sprintf("entry %q never yielded (%d of %d yielded)", k, len(pairs), len(want)))
			}
		}
	}
	checkPairs("MapIterator", pairs)
	// driven by the count instead of by Done(): Next() exactly Length() times
	// yields the same pairs, and only then is the iterator done
	if len(errs) == 0 && term {
		byCount, problem := iterateByCount(n, len(pairs))
		if problem != "" {
			viol("dir-iter-by-count MapIterator", problem)
		} else if fmt.Sprint(byCount) != fmt.Sprint(pairs) {
			viol("dir-iter-by-count MapIterator", fmt.Sprintf("Next() x %d without asking Done() yields %v, the Done()-guarded loop %v", len(pairs), clipKVs(byCount), clipKVs(pairs)))
		}
	}
	if nd, ok := n.(nativeDir); ok {
		np, term := iterateNative(nd, 4*len(want)+16)
		if !term {
			viol("dir-iter-nonterminating", "native Iterator did not finish")
		}
		checkPairs("Iterator", np)
		if term {
			it := nd.Iterator()
			var byCount []kv
			for i := 0; i < len(np); i++ {
				k, v := it.Next()
				if k == nil || v == nil {
					viol("dir-iter-by-count Iterator", fmt.Sprintf("native Next() #%d of %d without asking Done() returned nil", i+1, len(np)))
					break
				}
				byCount = append(byCount, kv{k.String(), v.Link().String()})
			}
			if len(byCount) == len(np) {
				if fmt.Sprint(byCount) != fmt.Sprint(np) {
					viol("dir-iter-by-count Iterator", fmt.Sprintf("native Next() x %d yields %v, the Done()-guarded loop %v", len(np), clipKVs(byCount), clipKVs(np)))
				}
				if !it.Done() {
					viol("dir-iter-by-count Iterator", "native iterator not Done() after Length() entries")
				}
			}
		}
	} else {
		viol("dir-native", fmt.Sprintf("%T has no native accessors", n))
	}
	names := make([]string, 0, len(want))
	for k := range want {
		names = append(names, k)
	}
	sort.Strings(names)
	for _, k := range names {
		res, err := lookupAll(n, k)
		for i, x := range res {
			if x != want[k] {
				viol(fmt.Sprintf("dir-lookup-member entry%d", i), fmt.Sprintf("lookup(%q) via entry point %d = %q (err=%v) want %s", k, i, x, err, want[k]))
			}
		}
	}
	for _, k := range nonMembers {
		if _, ok := want[k]; ok {
			continue
		}
		res, err := lookupAll(n, k)
		for i, x := range res {
			if x != "" {
				viol(fmt.Sprintf("dir-lookup-nonmember entry%d", i), fmt.Sprintf("lookup(%q) via entry point %d found %s", k, i, x))
			}
		}
		if err == nil {
			viol("dir-lookup-nonmember noerror", fmt.Sprintf("LookupByString(%q) returned nil error for a non-member", k))
		}
	}
}


// dirOpOrders runs the four whole-directory operations (Length, a full
// MapIterator listing, a full native listing, a lookup of every member) in
// every order, each order on a freshly opened node, and demands that every
// operation answers what the directory holds whatever ran before it on that
// node: memoised state left behind by one operation must not change another's
// answer. all=false runs the 6 orders in which two different operations precede
// Length (the cheap tier); all=true all 24 permutations.
func dirOpOrders(open func() (datamodel.Node, error), want map[string]string, all bool, viol func(sig, detail string)) (orders int) {
	ops := []string{"Length", "MapIterator", "Iterator", "Lookups"}
	var perms [][]int
	var rec func(cur []int, used int)
	rec = func(cur []int, used int) {
		if len(cur) == len(ops) {
			perms = append(perms, append([]int{}, cur...))
			return
		}
		for i := range ops {
			if used&(1<<uint(i)) == 0 {
				rec(append(cur, i), used|1<<uint(i))
			}
		}
	}
	rec(nil, 0)
	for _, pm := range perms {
		if !all && pm[0] == 0 {
			continue // Length first is what every other check does
		}
		if !all && !(pm[1] == 0 || pm[2] == 0) {
			continue
		}
		n, err := open()
		if err != nil {
			viol("dir-open", err.Error())
			return
		}
		orders++
		var done []string
		for _, o := range pm {
			at := fmt.Sprintf("after %v on the same node", done)
			switch ops[o] {
			case "Length":
				if got := n.Length(); got != int64(len(want)) {
					viol("dir-length after-other-operations", fmt.Sprintf("Length()=%d want %d, %s", got, len(want), at))
				}
			case "MapIterator":
				pairs, errs, term := iterateMap(n, 4*len(want)+16)
				if !term || len(errs) > 0 || len(pairs) != len(want) {
					viol("dir-iter after-other-operations MapIterator", fmt.Sprintf("listing yields %d pairs (errors %v, finished %v) want %d, %s", len(pairs), errs, term, len(want), at))
				}
				for _, p := range pairs {
					if want[p.K] != p.V {
						viol("dir-iter after-other-operations MapIterator", fmt.Sprintf("key %q yields %s want %s, %s", p.K, p.V, want[p.K], at))
						break
					}
				}
			case "Iterator":
				if nd, ok := n.(nativeDir); ok {
					pairs, term := iterateNative(nd, 4*len(want)+16)
					if !term || len(pairs) != len(want) {
						viol("dir-iter after-other-operations Iterator", fmt.Sprintf("native listing yields %d pairs (finished %v) want %d, %s", len(pairs), term, len(want), at))
					}
				}
			case "Lookups":
				for k, w := range want {
					v, err := n.LookupByString(k)
					if err != nil {
						viol("dir-lookup after-other-operations", fmt.Sprintf("member %q: %v, %s", k, err, at))
						break
					}
					if l, lerr := v.AsLink(); lerr != nil || l.String() != w {
						viol("dir-lookup after-other-operations", fmt.Sprintf("member %q resolves to %v want %s, %s", k, l, w, at))
						break
					}
				}
			}
			done = append(done, ops[o])
		}
	}
	return
}
