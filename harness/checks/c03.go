package checks

import (
	"encoding/json"
	"fmt"
	"sort"
	"strings"

	unixfsnode "github.com/ipfs/go-unixfsnode"
	"github.com/ipld/go-ipld-prime/datamodel"
	"github.com/ipld/go-ipld-prime/traversal"
	"github.com/ipld/go-ipld-prime/traversal/selector/builder"

	"verif/harness/core"
	"verif/harness/store"
)

func init() {
	Registry["C03"] = runC03
	Replayers["C03"] = func(raw []byte) string {
		var c c03Replay
		if err := json.Unmarshal(raw, &c); err != nil {
			return "bad case: " + err.Error()
		}
		var out []string
		c03Tree(c.Tree, &c, func(sig, detail string, _ c03Replay) { out = append(out, sig+" :: "+detail) }, nil)
		return joinLines(out)
	}
}

type c03Replay struct {
	Tree      treeSpec `json:"tree"`
	Path      string   `json:"path"`
	Target    string   `json:"target"`
	MatchPath bool     `json:"match_path"`
}

var c03Targets = map[string]builder.SelectorSpec{
	"match":       unixfsnode.MatchUnixFSSelector,
	"preload":     unixfsnode.MatchUnixFSPreloadSelector,
	"entity":      unixfsnode.MatchUnixFSEntitySelector,
	"explore-all": unixfsnode.ExploreAllRecursivelySelector,
}

type visitRec struct {
	Path    string
	Summary string
}

// summarise renders what a visitor saw at a matched node.
func summarise(n datamodel.Node) string {
	switch n.Kind() {
	case datamodel.Kind_Bytes:
		b, err := n.AsBytes()
		if err != nil {
			return "bytes!err:" + err.Error()
		}
		return fmt.Sprintf("bytes:%x", b)
	case datamodel.Kind_Map:
		it := n.MapIterator()
		if it == nil {
			return "map!nil-iterator"
		}
		// a visitor may keep what the iterator hands out: keys and values
		// are read only after the iteration is over
		var ks, vs []datamodel.Node
		for i := 0; !it.Done() && i < 1000; i++ {
			k, v, err := it.Next()
			if err != nil {
				return "map!err:" + err.Error()
			}
			ks, vs = append(ks, k), append(vs, v)
		}
		var ents []string
		for i := range ks {
			k, _ := ks[i].AsString()
			v := "?"
			if l, err := vs[i].AsLink(); err == nil {
				v = l.String()
			} else {
				v = "kind:" + vs[i].Kind().String()
			}
			ents = append(ents, k+"="+v)
		}
		// the match is a map: what it lists it also resolves (to the same link)
		for i := range ks {
			k, _ := ks[i].AsString()
			want := "?"
			if l, err := vs[i].AsLink(); err == nil {
				want = l.String()
			}
			v, err := n.LookupByString(k)
			if err != nil {
				ents = append(ents, fmt.Sprintf("!lookup(%q) of a listed entry fails: %v", k, err))
				continue
			}
			if l, err := v.AsLink(); err != nil || l.String() != want {
				ents = append(ents, fmt.Sprintf("!lookup(%q) gives another link than the listing", k))
			}
		}
		sort.Strings(ents)
		return "map:{" + strings.Join(ents, ",") + "}"
	}
	return "kind:" + n.Kind().String()
}

// expectSummary is what the model says a match of node t must carry.
func expectSummary(t *builtTree) string {
	switch t.Kind {
	case "f1", "fN", "fL", "fE", "fH1", "fR", "fU":
		return fmt.Sprintf("bytes:%x", t.Content)
	case "sym":
		return "map:{}"
	}
	var ents []string
	for _, n := range t.Names {
		ents = append(ents, n+"="+t.Children[n].Cid.String())
	}
	sort.Strings(ents)
	return "map:{" + strings.Join(ents, ",") + "}"
}

// c03Tree runs every (path, target, matchPath) of one tree; when only != nil
// just that combination.
func c03Tree(spec treeSpec, only *c03Replay, viol func(sig, detail string, rp c03Replay), r *core.Run) {
	s := store.New()
	seed := 0
	t, err := spec.build(s, &seed)
	if err != nil {
		viol("build-error", fmt.Sprintf("%s: %v", spec, err), c03Replay{Tree: spec})
		return
	}
	if r != nil {
		r.States.Add(1)
	}
	tried := map[string]bool{}
	var paths []string
	for _, segs := range t.allPaths() {
		same, other := pathVariants(segs)
		for _, p := range append(same, other...) {
			if !tried[p] {
				tried[p] = true
				paths = append(paths, p)
			}
		}
	}
	if only != nil {
		paths = []string{only.Path}
	}
	for _, p := range paths {
		segs := splitPath(p)
		target, trail := t.resolve(segs)
		for _, tn := range sortedKeys(c03Targets) {
			for _, mp := range []bool{false, true} {
				if only != nil && (only.Target != tn || only.MatchPath != mp) {
					continue
				}
				rp := c03Replay{Tree: spec, Path: p, Target: tn, MatchPath: mp}
				var want []visitRec
				if mp {
					upto := len(trail)
					if target != nil {
						upto = len(trail) - 1
					}
					for i := 0; i < upto; i++ {
						want = append(want, visitRec{Path: strings.Join(segs[:i], "/"), Summary: "*"})
					}
				}
				if target != nil && tn != "explore-all" {
					want = append(want, visitRec{Path: strings.Join(segs, "/"), Summary: expectSummary(target)})
				}
				var got []visitRec
				ls := lsFor(s)
				sel := unixfsnode.UnixFSPathSelectorBuilder(p, c03Targets[tn], mp)
				var werr error
				if pnk, pv := core.Guard(func() {
					werr = walkMatching(ls, t.Cid, sel, func(pr traversal.Progress, n datamodel.Node) error {
						got = append(got, visitRec{Path: pr.Path.String(), Summary: summarise(n)})
						return nil
					})
				}); pnk {
					viol("panic walk "+tn, fmt.Sprintf("%s path %q target=%s matchPath=%v: %v", spec, p, tn, mp, pv), rp)
					continue
				}
				if r != nil {
					r.Transitions.Add(1)
					r.Evaluations.Add(1)
				}
				class := fmt.Sprintf("target=%s matchPath=%v", tn, mp)
				if werr != nil && target != nil {
					viol("walk-error "+class, fmt.Sprintf("%s path %q: %v", spec, p, werr), rp)
					continue
				}
				ok := len(got) == len(want)
				for i := 0; ok && i < len(got); i++ {
					if got[i].Path != want[i].Path || (want[i].Summary != "*" && got[i].Summary != want[i].Summary) {
						ok = false
					}
				}
				if ok {
					continue
				}
				// classify what is wrong
				kind := "wrong-matches"
				switch {
				case mp && len(segs) >= 1 && len(want) > 1 && len(got) == 1 && got[0].Path == "":
					kind = "matchpath-stops-at-root"
				case len(got) == 0 && len(want) > 0:
					kind = "target-not-matched"
				case len(got) > len(want):
					kind = "extra-matches"
				case len(got) == len(want):
					kind = "wrong-content"
				}
				viol(kind+" "+class, fmt.Sprintf("%s path %q: visitor calls %s, expected %s", spec, p, renderVisits(got), renderVisits(want)), rp)
			}
		}
	}
}

func renderVisits(v []visitRec) string {
	var out []string
	for _, x := range v {
		s := x.Summary
		if len(s) > 60 {
			s = s[:60] + "…"
		}
		out = append(out, fmt.Sprintf("(%q %s)", x.Path, s))
	}
	return "[" + strings.Join(out, " ") + "]"
}

func runC03(r *core.Run) {
	r.Rule("bounded-exhaustive: every tree with <= 4 (quick) / 5 (thorough) nodes over {1-block file, multi-block file, symlink, plain dir, HAMT dir with colliding names (2+ shard levels)} x every path to every node and its variants (leading/trailing/double slashes; inserted '.', '..', '%20', unknown segment; truncated/extended/upper-cased/prefixed last segment) x targets {match, preload, entity, explore-all} x matchPath {off,on}; each selector compiled and run with traversal.WalkMatching over a link system carrying the UnixFS reifiers; oracle: ordered visitor calls (path, bytes / key->link map) == model resolution (literal segments, ipld.ParsePath splitting)")
	r.Assume("traversal semantics are those of the pinned go-ipld-prime v0.21.0")
	trees := pathTrees(r.Quick())
	r.Set("trees", len(trees))
	core.ParallelFor(len(trees), workers, func(i int) {
		spec := trees[i]
		r.Distinct(spec.String())
		if i%53 == 0 {
			r.Sample(spec.String())
		}
		c03Tree(spec, nil, func(sig, detail string, rp c03Replay) { r.Violate(sig, detail, rp) }, r)
	})
}
