//go:build overlay

package checks

import "github.com/ipfs/go-unixfsnode/verifrt"

// overlayActive reports that this binary was built from the instrumented
// overlay of the module under test (verifrt seams available).
const overlayActive = true

func setMapPerm(f func(n int, site string) []int)              { verifrt.Perm = f }
func setFieldHook(f func(addr uintptr, kind int, site string)) { verifrt.Hook = f }
func setSyncHook(f func(kind int, addr uintptr) int)           { verifrt.Sync = f }
func setSpawnHook(f func(func()))                              { verifrt.Spawn = f }

const (
	evLock        = verifrt.EvLock
	evUnlock      = verifrt.EvUnlock
	evRLock       = verifrt.EvRLock
	evRUnlock     = verifrt.EvRUnlock
	evOnceEnter   = verifrt.EvOnceEnter
	evOnceDone    = verifrt.EvOnceDone
	evAtomicLoad  = verifrt.EvAtomicLoad
	evAtomicStore = verifrt.EvAtomicStore
	evAtomicRMW   = verifrt.EvAtomicRMW
	evTryLock     = verifrt.EvTryLock
	evTryRLock    = verifrt.EvTryRLock
	evWGAdd       = verifrt.EvWGAdd
	evWGDone      = verifrt.EvWGDone
	evWGWait      = verifrt.EvWGWait
	evCondEnq     = verifrt.EvCondEnq
	evCondWait    = verifrt.EvCondWait
	evCondSignal  = verifrt.EvCondSignal
	evCondBcast   = verifrt.EvCondBcast
)
