//go:build !overlay

package checks

const overlayActive = false

func setMapPerm(f func(n int, site string) []int)              {}
func setFieldHook(f func(addr uintptr, kind int, site string)) {}
func setSyncHook(f func(kind int, addr uintptr) int)           {}
func setSpawnHook(f func(func()))                              {}

const (
	evLock = iota
	evUnlock
	evRLock
	evRUnlock
	evOnceEnter
	evOnceDone
	evAtomicLoad
	evAtomicStore
	evAtomicRMW
	evTryLock
	evTryRLock
	evWGAdd
	evWGDone
	evWGWait
	evCondEnq
	evCondWait
	evCondSignal
	evCondBcast
)
