package checks

import (
	"encoding/json"
	"fmt"
	"sort"

	"github.com/ipfs/go-cid"
	"io"
	"verif/harness/core"
	"verif/harness/gen"
	"verif/harness/model"
	"verif/harness/store"
)

func init() {
	Registry["C07"] = runC07
	Replayers["C07"] = func(raw []byte) string {
		var c fileCase
		var out []string
		var pair [2]fileCase
		if err := json.Unmarshal(raw, &pair); err == nil {
			// an ordered pair: build the first, judge the second
			if _, _, _, err := pair[0].build(); err != nil {
				return "build-error :: " + err.Error()
			}
			c07Case(pair[1], func(sig, detail string) { out = append(out, sig+" after-another :: "+detail) })
			return joinLines(out)
		}
		if err := json.Unmarshal(raw, &c); err != nil {
			return "bad case: " + err.Error()
		}
		c07Case(c, func(sig, detail string) { out = append(out, sig+" :: "+detail) })
		return joinLines(out)
	}
}

// c07Case compares the builder's (link,size) with the reference balanced
// importer (raw leaves, CIDv1) for one content.
func c07Case(c fileCase, viol func(sig, detail string)) (shape string) {
	c.Writer = "ours"
	_, root, sz, err := c.build()
	if err != nil {
		viol("build-error", fmt.Sprintf("%s: %v", c, err))
		return ""
	}
	rs := store.New()
	rroot, rsz, err := gen.BuildRef(rs, c.content(), c.Chunker, c.W, gen.RefMode{Layout: "balanced", RawLeaves: true, CidV1: true})
	if err != nil {
		viol("ref-build-error", fmt.Sprintf("%s: %v", c, err))
		return ""
	}
	shape = fmt.Sprintf("w=%d blocks=%d", c.W, rs.Len())
	if !root.Equals(rroot) {
		viol("root-cid-differs", fmt.Sprintf("%s: builder %s (size %d), reference %s (size %d)", c, root, sz, rroot, rsz))
		return
	}
	if sz != rsz {
		viol("size-differs", fmt.Sprintf("%s: builder size %d, reference Size() %d (same root %s)", c, sz, rsz, root))
	}
	return
}

// zeroStream yields n zero bytes without holding them.
type zeroStream struct{ left int64 }

func (z *zeroStream) Read(p []byte) (int, error) {
	if z.left <= 0 {
		return 0, io.EOF
	}
	n := int64(len(p))
	if n > z.left {
		n = z.left
	}
	for i := int64(0); i < n; i++ {
		p[i] = 0
	}
	z.left -= n
	return int(n), nil
}

// c07Huge: a file of 2^32 + 2^20 bytes (4097 one-MiB chunks of zeros, streamed;
// the stores keep the one distinct leaf once): sizes recorded in interior nodes
// exceed 32 bits. Both importers run over the same stream.
func c07Huge(r *core.Run) {
	total := int64(1)<<32 + int64(1)<<20
	chunker := "size-1048576"
	s1, s2 := store.New(), store.New()
	var ours cid.Cid
	var oursSz uint64
	var err error
	gen.WithWidth(174, func() {
		ours, oursSz, err = gen.BuildOurs(s1, &zeroStream{left: total}, chunker)
	})
	r.Evaluations.Add(1)
	desc := fmt.Sprintf("w=174 %s, %d zero bytes (2^32 + 2^20)", chunker, total)
	if err != nil {
		r.Violate("build-error huge", desc+": "+err.Error(), nil)
		return
	}
	ref, refSz, err := gen.BuildRefReader(s2, &zeroStream{left: total}, chunker, 174, gen.RefMode{Layout: "balanced", RawLeaves: true, CidV1: true})
	if err != nil {
		r.InternalError("reference importer on the huge file: " + err.Error())
		return
	}
	r.Transitions.Add(2)
	if !ours.Equals(ref) || oursSz != refSz {
		detail := ""
		if a, err := model.Load(s1, ours); err == nil && a.FS != nil {
			if b, err := model.Load(s2, ref); err == nil && b.FS != nil {
				detail = fmt.Sprintf("; root FileSize %d vs reference %d", a.FS.GetFilesize(), b.FS.GetFilesize())
			}
		}
		r.Violate("root-cid-differs huge", fmt.Sprintf("%s: builder %s (size %d), reference %s (size %d)%s", desc, ours, oursSz, ref, refSz, detail), nil)
	}
	r.Set("huge_file_bytes", total)
}

// c07AfterAnother builds, one after the other in this order and with nothing
// else running, every ordered pair of files that the builder could confuse if it
// remembered anything of the previous build: the same length cut differently
// (equal link counts and totals, different block sizes), the same cut of a
// different length, another width. The second build is compared with the
// reference importer exactly as if it had been the first.
func c07AfterAnother(r *core.Run) {
	r.Rule("ordered pairs (sequential, nothing else running): build A, then B, for every (L<=maxL, chunk sizes K1!=K2 <= L) x width {2,3} x content {distinct, equal}, plus the 1 MiB neighbours; oracle for B = the reference importer, as for a first build")
	maxL := 12
	if !r.Quick() {
		maxL = 20
	}
	pairs := 0
	run := func(a, b fileCase) {
		pairs++
		r.Evaluations.Add(1)
		r.Transitions.Add(2)
		if _, _, _, err := a.build(); err != nil {
			r.Violate(fmt.Sprintf("build-error w=%d %s L=%d %s", a.W, a.Chunker, a.L, a.Pattern), fmt.Sprintf("%s: %v", a, err), a)
			return
		}
		c07Case(b, func(sig, detail string) {
			r.Violate(fmt.Sprintf("%s after-another w=%d %s L=%d %s", sig, b.W, b.Chunker, b.L, b.Pattern), "after building "+a.String()+": "+detail, [2]fileCase{a, b})
		})
	}
	for _, pat := range []string{"distinct", "equal"} {
		for _, w := range []int{2, 3} {
			for L := 2; L <= maxL; L++ {
				for k1 := 1; k1 <= L; k1++ {
					for k2 := 1; k2 <= L; k2++ {
						if k1 == k2 {
							continue
						}
						a := fileCase{Writer: "ours", W: w, Chunker: fmt.Sprintf("size-%d", k1), L: L, K: k1, Pattern: pat}
						b := fileCase{Writer: "ours", W: w, Chunker: fmt.Sprintf("size-%d", k2), L: L, K: k2, Pattern: pat}
						run(a, b)
					}
				}
				// the same cut, one byte more or less; the other width
				a := fileCase{Writer: "ours", W: w, Chunker: "size-3", L: L, K: 3, Pattern: pat}
				b := a
				b.L = L + 1
				run(a, b)
				run(b, a)
				b = a
				b.W = 5 - w
				run(a, b)
			}
		}
	}
	big := []fileCase{
		{Writer: "ours", W: 2, Chunker: "size-1048576", L: 1048577, K: 4099, Pattern: "distinct"},
		{Writer: "ours", W: 2, Chunker: "size-1048575", L: 1048577, K: 4099, Pattern: "distinct"},
		{Writer: "ours", W: 2, Chunker: "size-524289", L: 1048577, K: 4099, Pattern: "distinct"},
	}
	for i := range big {
		for j := range big {
			if i != j {
				run(big[i], big[j])
			}
		}
	}
	r.Set("ordered_pairs", pairs)
}

func runC07(r *core.Run) {
	c07AfterAnother(r)
	c07Huge(r)
	// files built while another build runs through the same LinkSystem come out
	// as they do alone (alone they equal the reference importer's, below)
	if overlayActive {
		concurrentBuilds(r, func(pr [2]c11Build) bool { return pr[0].content != nil && pr[1].content != nil })
	}
	r.Rule("bounded-exhaustive: every chunk count 0..w^3+w+1 per width x last chunk full/short/1-byte x {distinct,equal} x size-K chunkers, plus content-defined chunkers; oracle = (Cid,Size()) of boxo balanced.Layout{Maxlinks:w,RawLeaves,CIDv1} on the same chunker string; distinct = distinct (width, block count) shapes")
	r.Assume("reference = boxo v0.24.0 balanced importer (a dependency of the repository)")
	var cases []fileCase
	if r.Quick() {
		cases = smallFileFamily([]int{2, 3, 4}, []int{4}, []string{"distinct", "equal"}, []string{"ours"})
		cases = append(cases, smallFileFamily([]int{2, 3}, []int{1}, []string{"distinct"}, []string{"ours"})...)
		for _, n := range []int{173, 174, 175, 348, 349} {
			cases = append(cases, fileCase{Writer: "ours", W: 174, Chunker: "size-1", L: n, K: 1, Pattern: "distinct"})
		}
	} else {
		cases = smallFileFamily([]int{2, 3, 4, 5}, []int{1, 4}, []string{"distinct", "equal"}, []string{"ours"})
		cases = append(cases, smallFileFamily([]int{8}, []int{1}, []string{"distinct"}, []string{"ours"})...)
		for _, n := range []int{1, 173, 174, 175, 347, 348, 349, 174 * 2, 174 * 3, 174*174 - 1, 174 * 174, 174*174 + 1, 174*174 + 174, 174*174 + 175} {
			cases = append(cases, fileCase{Writer: "ours", W: 174, Chunker: "size-1", L: n, K: 1, Pattern: "distinct"})
		}
	}
	rabinMax := 150
	if !r.Quick() {
		rabinMax = 600
	}
	for L := 0; L <= rabinMax; L++ {
		for _, w := range []int{2, 3} {
			cases = append(cases, fileCase{Writer: "ours", W: w, Chunker: "rabin-16-24-40", L: L, K: 5, Pattern: "distinct"})
		}
	}
	for _, ch := range []string{"", "default", "rabin", "buzhash", "size-262144"} {
		for _, L := range []int{0, 1, 256*1024 - 1, 256 * 1024, 256*1024 + 1, 3*256*1024 + 5, 1 << 20} {
			if r.Quick() && L > 256*1024+1 {
				continue
			}
			for _, w := range []int{2, 174} {
				cases = append(cases, fileCase{Writer: "ours", W: w, Chunker: ch, L: L, K: 4099, Pattern: "distinct"})
			}
		}
	}
	// the largest chunk the chunker package accepts (1 MiB) and its neighbours:
	// the reference importer stores such leaves
	for _, ch := range []string{"size-1048575", "size-1048576", "rabin-1048574-1048575-1048576"} {
		for _, L := range []int{1048575, 1048576, 1048577, 2*1048576 + 3} {
			cases = append(cases, fileCase{Writer: "ours", W: 2, Chunker: ch, L: L, K: 4099, Pattern: "distinct"})
		}
	}
	// tall narrow trees: width 2 with up to 1025 chunks (11 levels), width 3 with
	// 3^8 and 3^8+1 chunks
	for _, wl := range [][2]int{{2, 256}, {2, 257}, {2, 300}, {2, 513}, {2, 1025}, {3, 6561}, {3, 6562}} {
		cases = append(cases, fileCase{Writer: "ours", W: wl[0], Chunker: "size-1", L: wl[1], K: 1, Pattern: "distinct"})
	}
	// very wide nodes: the reference puts Maxlinks links into one node whatever
	// the block size that gives
	for _, wl := range [][2]int{{32768, 22310}, {32768, 22311}, {25000, 25001}} {
		cases = append(cases, fileCase{Writer: "ours", W: wl[0], Chunker: "size-1", L: wl[1], K: 1, Pattern: "distinct"})
	}
	// how the bytes reach the builder does not matter: the same content handed
	// over by a reader positioned after an already consumed header, a section
	// reader, a buffer, an opaque reader, a positioned *os.File gives the same DAG
	base := len(cases)
	for i := 0; i < base; i++ {
		c := cases[i]
		if c.L > 300*1024 || (c.L > 64 && i%7 != 0) {
			continue
		}
		for j, src := range fileSources {
			if src == "file" && (i+j)%5 != 0 {
				continue
			}
			c2 := c
			c2.Source = src
			cases = append(cases, c2)
		}
	}
	groups := groupByWidth(cases)
	var widths []int
	for w := range groups {
		widths = append(widths, w)
	}
	sort.Ints(widths)
	for _, w := range widths {
		g := groups[w]
		core.ParallelFor(len(g), workers, func(i int) {
			c := g[i]
			r.Evaluations.Add(1)
			r.Transitions.Add(2)
			if i%61 == 0 {
				r.Sample(c)
			}
			shape := c07Case(c, func(sig, detail string) {
				r.Violate(fmt.Sprintf("%s w=%d %s L=%d %s", sig, c.W, c.Chunker, c.L, c.Pattern), detail, c)
			})
			if shape != "" && r.Distinct(shape) {
				r.States.Add(1)
			}
		})
	}
	r.Set("widths", widths)
}
