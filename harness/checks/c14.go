package checks

import (
	"bytes"
	"context"
	"encoding/json"
	"fmt"
	"google.golang.org/protobuf/encoding/protowire"
	"strings"

	"github.com/gogo/protobuf/proto"
	pb "github.com/ipfs/boxo/ipld/unixfs/pb"
	"github.com/ipfs/go-cid"
	"github.com/ipfs/go-unixfsnode/file"
	"github.com/ipld/go-ipld-prime/adl"
	"github.com/ipld/go-ipld-prime/datamodel"
	"github.com/ipld/go-ipld-prime/fluent/qp"
	cidlink "github.com/ipld/go-ipld-prime/linking/cid"
	basicnode "github.com/ipld/go-ipld-prime/node/basic"

	"verif/harness/core"
	"verif/harness/gen"
	"verif/harness/model"
	"verif/harness/store"
)

func init() {
	Registry["C14"] = runC14
	Replayers["C14"] = func(raw []byte) string {
		var out []string
		// real DAGs are recorded by what built them
		var probe map[string]any
		json.Unmarshal(raw, &probe)
		if _, isHand := probe["hand"]; isHand {
			var hc c05Case
			json.Unmarshal(raw, &hc)
			h, ok := gen.HandByLabel(hc.Hand)
			if !ok {
				return "unknown hand-written DAG " + hc.Hand
			}
			c14ReplayOut = &out
			c14Real(nil, h.Label, func() (*store.Store, cid.Cid, error) {
				s := store.New()
				root, _ := h.Build(s)
				return s, root, nil
			}, datamodel.Kind_Bytes, nil)
			return joinLines(out)
		}
		if _, isFile := probe["writer"]; isFile {
			var fc fileCase
			json.Unmarshal(raw, &fc)
			c14ReplayOut = &out
			c14Real(nil, "file "+fc.String(), func() (*store.Store, cid.Cid, error) {
				s, root, _, err := fc.build()
				return s, root, err
			}, datamodel.Kind_Bytes, nil)
			return joinLines(out)
		}
		var c c14Case
		if err := json.Unmarshal(raw, &c); err != nil {
			return "bad case: " + err.Error()
		}
		c.run(func(sig, detail string) { out = append(out, sig+" :: "+detail) }, nil)
		return joinLines(out)
	}
}

// c14Case: a dag-pb node given by its UnixFS payload (hex in replay) and link
// shape, reified through one entry point.
type c14Case struct {
	Label  string `json:"label"`
	Data   []byte `json:"data"` // nil = absent
	NoData bool   `json:"no_data"`
	Links  int    `json:"links"`  // 0, 1, 3
	Expect string `json:"expect"` // linkmap | bytes | map | error | no-panic
	Via    string `json:"via"`    // built | decoded
	// Nameless: the last link has no Name field
	Nameless bool `json:"nameless,omitempty"`
}

func (c c14Case) String() string {
	return fmt.Sprintf("%s data=%x nodata=%v links=%d via=%s expect=%s", c.Label, c.Data, c.NoData, c.Links, c.Via, c.Expect)
}

func u64p(v uint64) *uint64 { return &v }

func fsData(t int32, mod func(d *pb.Data)) []byte {
	ty := pb.Data_DataType(t)
	d := &pb.Data{Type: &ty}
	if mod != nil {
		mod(d)
	}
	b, err := proto.Marshal(d)
	if err != nil {
		panic(err)
	}
	return b
}

func (c c14Case) run(viol func(sig, detail string), r *core.Run) {
	s := store.New()
	pn := &model.PBNode{}
	if !c.NoData {
		pn.Data, pn.HasData = append([]byte{}, c.Data...), true
	}
	names := []string{"one", "two", "three"}
	var leafSizes []uint64
	for i := 0; i < c.Links; i++ {
		e := gen.Leaf(s, names[i])
		if c.Nameless && i == c.Links-1 {
			// the last link carries no Name field at all (optional in dag-pb)
			pn.Links = append(pn.Links, model.PBLink{Cid: e.Cid, Tsize: e.Tsize, HasTsize: true})
			leafSizes = append(leafSizes, e.Tsize)
			continue
		}
		pn.Links = append(pn.Links, model.PBLink{Cid: e.Cid, Name: names[i], HasName: true, Tsize: e.Tsize, HasTsize: true})
		leafSizes = append(leafSizes, e.Tsize)
	}
	node, err := buildPBNode(pn)
	if err != nil {
		viol("harness-build", err.Error())
		return
	}
	orig, err := encodePBNode(node)
	if err != nil {
		viol("harness-encode", err.Error())
		return
	}
	if c.Via == "decoded" {
		node, err = decodePBNode(orig)
		if err != nil {
			viol("harness-decode", err.Error())
			return
		}
	}
	ls := lsFor(s)
	for _, how := range []string{"Reify", "unixfs", "unixfs-preload", "Reify/zero-linkcontext", "unixfs/zero-linkcontext", "unixfs-preload/zero-linkcontext"} {
		var n datamodel.Node
		var rerr error
		if p, pv := core.Guard(func() { n, rerr = openVia(how, ls, node) }); p {
			viol("panic reify "+c.Label, fmt.Sprintf("%s via %s: %v", c, how, pv))
			continue
		}
		if r != nil {
			r.Transitions.Add(1)
		}
		tag := c.Label + " " + how
		switch c.Expect {
		case "error":
			if rerr == nil {
				viol("dispatch-expected-error "+tag, fmt.Sprintf("%s: got %T (kind %v), want an error", c, n, n.Kind()))
			}
			continue
		case "no-panic":
			if rerr != nil {
				continue
			}
		default:
			if rerr != nil {
				viol("dispatch-unexpected-error "+tag, fmt.Sprintf("%s: %v", c, rerr))
				continue
			}
		}
		if n == nil {
			viol("dispatch-nil-node "+tag, c.String())
			continue
		}
		switch c.Expect {
		case "linkmap":
			if n.Kind() != datamodel.Kind_Map {
				viol("dispatch-kind "+tag, fmt.Sprintf("%s: kind %v want map", c, n.Kind()))
			}
			for _, l := range pn.Links {
				if !l.HasName {
					continue
				}
				v, err := n.LookupByString(l.Name)
				if err != nil {
					viol("linkmap-lookup "+tag, fmt.Sprintf("%s: lookup(%q): %v", c, l.Name, err))
					continue
				}
				if lk, err := v.AsLink(); err != nil || lk.String() != l.Cid.String() {
					viol("linkmap-lookup "+tag, fmt.Sprintf("%s: lookup(%q) = %v", c, l.Name, lk))
				}
			}
			if _, err := n.LookupByString("absent-name"); err == nil {
				viol("linkmap-lookup-absent "+tag, c.String())
			}
		case "bytes":
			if n.Kind() != datamodel.Kind_Bytes {
				viol("dispatch-kind "+tag, fmt.Sprintf("%s: kind %v want bytes", c, n.Kind()))
			}
		case "map":
			if n.Kind() != datamodel.Kind_Map {
				viol("dispatch-kind "+tag, fmt.Sprintf("%s: kind %v want map", c, n.Kind()))
			}
		}
		a, ok := n.(adl.ADL)
		if !ok {
			viol("not-adl "+tag, fmt.Sprintf("%s: %T does not expose a substrate", c, n))
			continue
		}
		sub := a.Substrate()
		if sub != datamodel.Node(node) {
			viol("substrate-identity "+tag, fmt.Sprintf("%s: Substrate() is %T (kind %v), not the original dag-pb node", c, sub, kindOf(sub)))
		}
		if p, pv := core.Guard(func() {
			enc, err := encodePBNode(sub)
			if err != nil || !bytes.Equal(enc, orig) {
				viol("substrate-reencode "+tag, fmt.Sprintf("%s: re-encoding the substrate gives err=%v %x, original block %x", c, err, enc, orig))
			}
		}); p {
			viol("substrate-reencode "+tag, fmt.Sprintf("%s: encoding the substrate panicked: %v", c, pv))
		}
	}
	if r != nil {
		r.States.Add(1)
	}
}

func kindOf(n datamodel.Node) string {
	if n == nil {
		return "nil"
	}
	return n.Kind().String()
}

// typeFieldLast re-serialises a UnixFS Data message with its DataType field
// (number 1) moved behind all other fields; nil if it has none or does not parse.
func typeFieldLast(b []byte) []byte {
	var typ, rest []byte
	for len(b) > 0 {
		num, wt, n := protowire.ConsumeTag(b)
		if n < 0 {
			return nil
		}
		m := protowire.ConsumeFieldValue(num, wt, b[n:])
		if m < 0 {
			return nil
		}
		if num == 1 {
			typ = append(typ, b[:n+m]...)
		} else {
			rest = append(rest, b[:n+m]...)
		}
		b = b[n+m:]
	}
	if typ == nil || rest == nil {
		return nil
	}
	return append(rest, typ...)
}

func c14Cases(quick bool) []c14Case {
	var out []c14Case
	add := func(label string, data []byte, nodata bool, expect string, linkShapes []int) {
		for _, l := range linkShapes {
			for _, via := range []string{"built", "decoded"} {
				out = append(out, c14Case{Label: label, Data: data, NoData: nodata, Links: l, Expect: expect, Via: via})
			}
		}
	}
	all := []int{0, 1, 3}
	add("no-data", nil, true, "linkmap", all)
	add("empty-data", []byte{}, false, "linkmap", all)
	for i, g := range [][]byte{{0xff, 0xff}, {0x08}, {0x0a, 0x01, 0x00}, {0x08, 0x02, 0x12, 0x05, 'x'}, {0x12, 0x01, 'x'}, {0x08, 0x80}} {
		add(fmt.Sprintf("garbage-%d", i), g, false, "linkmap", all)
	}
	// well-formed outer protobuf that is rejected below the field loop
	for i, g := range [][]byte{
		{0x08, 0x02, 0x08, 0x02},                         // DataType twice
		{0x08, 0x02, 0x18, 0x01, 0x18, 0x02},             // FileSize twice
		{0x08, 0x05, 0x30, 0x08, 0x30, 0x08},             // Fanout twice
		{0x08, 0x02, 0x22, 0x01, 0x01, 0x22, 0x01, 0x01}, // two packed block-size runs
		{0x08, 0x02, 0x22, 0x01, 0x80},                   // packed run with a truncated varint
		{0x08, 0x02, 0x20, 0x01, 0x22, 0x01, 0x01},       // unpacked then packed block sizes
		{0x08, 0x02, 0x42, 0x01, 0x08},                   // mtime: seconds tag without value
		{0x08, 0x02, 0x42, 0x02, 0x15, 0x00},             // mtime: truncated fixed32
		{0x08, 0x02, 0x38, 0x80, 0x80, 0x80, 0x80, 0x10}, // mode wider than 32 bits
		{0x08, 0x02, 0x12, 0x05, 'x'},                    // data length beyond the message
	} {
		add(fmt.Sprintf("rejected-inner-%d", i), g, false, "linkmap", all)
	}
	add("symlink", fsData(4, func(d *pb.Data) { d.Data = []byte("../t") }), false, "linkmap", all)
	add("metadata", fsData(3, nil), false, "linkmap", all)
	add("metadata-with-data", fsData(3, func(d *pb.Data) { d.Data = []byte{0x0a, 0x01, 'x'} }), false, "linkmap", all)
	// reification is directed by the type alone: what the inner Data bytes of a
	// Metadata / Symlink / Directory node hold (text, a truncated or ill-typed
	// protobuf record, a long blob) is not its business
	for i, pl := range [][]byte{[]byte("hello"), {0x0a, 0x05, 'x'}, {0x08, 0x01}, {0xff}, bytesRepeat(0xa5, 300)} {
		pl := pl
		add(fmt.Sprintf("metadata-opaque-payload-%d", i), fsData(3, func(d *pb.Data) { d.Data = pl }), false, "linkmap", all)
		add(fmt.Sprintf("symlink-opaque-payload-%d", i), fsData(4, func(d *pb.Data) { d.Data = pl }), false, "linkmap", all)
		add(fmt.Sprintf("directory-opaque-payload-%d", i), fsData(1, func(d *pb.Data) { d.Data = pl }), false, "map", all)
	}
	add("raw-type", fsData(0, func(d *pb.Data) { d.Data = []byte("rawdata") }), false, "bytes", []int{0})
	add("raw-type-empty", fsData(0, nil), false, "bytes", []int{0})
	add("file-single", fsData(2, func(d *pb.Data) { d.Data = []byte("hello"); d.Filesize = u64p(5) }), false, "bytes", []int{0})
	add("file-empty", fsData(2, nil), false, "bytes", []int{0})
	add("file-links", fsData(2, func(d *pb.Data) { d.Filesize = u64p(8); d.Blocksizes = []uint64{8} }), false, "bytes", []int{1})
	add("file-links3", fsData(2, func(d *pb.Data) { d.Filesize = u64p(8 + 8 + 10); d.Blocksizes = []uint64{8, 8, 10} }), false, "bytes", []int{3})
	add("directory", fsData(1, nil), false, "map", all)
	add("directory-with-mode", fsData(1, func(d *pb.Data) { m := uint32(0o700); d.Mode = &m }), false, "map", all)
	shard := func(mod func(d *pb.Data)) []byte {
		return fsData(5, func(d *pb.Data) {
			d.HashType = u64p(0x22)
			d.Fanout = u64p(8)
			d.Data = []byte{}
			if mod != nil {
				mod(d)
			}
		})
	}
	add("shard-empty", shard(nil), false, "map", []int{0})
	add("shard-empty-fanout1024", shard(func(d *pb.Data) { d.Fanout = u64p(1024) }), false, "map", []int{0})
	add("shard-zero-bitfield", shard(func(d *pb.Data) { d.Data = []byte{0} }), false, "map", []int{0})
	// an empty sharded directory as the reference implementation writes it: no
	// bitfield field at all (nothing to index), at every permitted fanout
	for _, f := range []uint64{8, 16, 32, 64, 128, 256, 512, 1024} {
		f := f
		add(fmt.Sprintf("shard-empty-no-bitfield-fanout%d", f), shard(func(d *pb.Data) { d.Data = nil; d.Fanout = u64p(f) }), false, "map", []int{0})
	}
	for _, t := range []int32{6, 7, 100} {
		add(fmt.Sprintf("unknown-type-%d", t), fsData(t, nil), false, "error", all)
	}
	// out-of-range types that are congruent to a known type modulo 2^32 (a
	// decoder that narrows the varint to 32 bits would accept them)
	for _, tv := range []uint64{1 << 32, 1<<32 + 1, 1<<32 + 2, 1<<32 + 5, 1 << 63, 1<<63 + 2, 1<<40 + 1} {
		add(fmt.Sprintf("unknown-type-%d", tv), protowire.AppendVarint([]byte{0x08}, tv), false, "error", []int{0, 1})
	}
	add("unknown-type-minus1", []byte{0x08, 0xff, 0xff, 0xff, 0xff, 0xff, 0xff, 0xff, 0xff, 0xff, 0x01}, false, "error", all)
	add("shard-no-fanout", shard(func(d *pb.Data) { d.Fanout = nil }), false, "error", []int{0})
	add("shard-fanout-0", shard(func(d *pb.Data) { d.Fanout = u64p(0) }), false, "error", []int{0})
	add("shard-fanout-3", shard(func(d *pb.Data) { d.Fanout = u64p(3) }), false, "error", []int{0})
	add("shard-fanout-2048", shard(func(d *pb.Data) { d.Fanout = u64p(2048) }), false, "error", []int{0})
	add("shard-fanout-2^63", shard(func(d *pb.Data) { d.Fanout = u64p(1 << 63) }), false, "error", []int{0})
	add("shard-no-hashtype", shard(func(d *pb.Data) { d.HashType = nil }), false, "error", []int{0})
	add("shard-sha256-hashtype", shard(func(d *pb.Data) { d.HashType = u64p(0x12) }), false, "error", []int{0})
	// parameters whose validity the statement leaves open: value or error, never a panic
	add("shard-long-bitfield", shard(func(d *pb.Data) { d.Data = []byte{0, 1} }), false, "no-panic", []int{0})
	// fanouts below 8 have no whole-byte bitfield: the reference implementation and
	// this library reject them ("every permitted fanout" is a power of two in 8..1024)
	for _, f := range []uint64{1, 2, 4} {
		f := f
		add(fmt.Sprintf("shard-fanout-%d", f), shard(func(d *pb.Data) { d.Fanout = u64p(f) }), false, "error", []int{0})
		add(fmt.Sprintf("shard-fanout-%d-no-bitfield", f), shard(func(d *pb.Data) { d.Fanout = u64p(f); d.Data = nil }), false, "error", []int{0})
		add(fmt.Sprintf("shard-fanout-%d-bitfield-1byte", f), shard(func(d *pb.Data) { d.Fanout = u64p(f); d.Data = []byte{1} }), false, "error", []int{0})
	}
	add("shard-no-bitfield-with-links", shard(func(d *pb.Data) { d.Data = nil }), false, "no-panic", []int{1})
	// every node class whose last link has no Name field at all
	for _, c := range append([]c14Case{}, out...) {
		if c.Links > 0 && !strings.HasPrefix(c.Label, "shard") {
			c2 := c
			c2.Nameless, c2.Label = true, c.Label+" [nameless last link]"
			out = append(out, c2)
		}
	}
	// the same payloads with the fields in another wire order (protobuf field
	// order is not significant; the decoder accepts any): DataType last, and a
	// non-minimal (two-byte) DataType tag first
	base := len(out)
	for i := 0; i < base; i++ {
		c := out[i]
		if c.NoData || len(c.Data) == 0 || strings.HasPrefix(c.Label, "garbage") || strings.HasPrefix(c.Label, "rejected-inner") || strings.HasPrefix(c.Label, "unknown-type-minus1") || strings.HasPrefix(c.Label, "unknown-type-4") || strings.HasPrefix(c.Label, "unknown-type-9") || strings.HasPrefix(c.Label, "unknown-type-1") {
			continue
		}
		if re := typeFieldLast(c.Data); re != nil {
			c2 := c
			c2.Label, c2.Data = c.Label+" [DataType last]", re
			out = append(out, c2)
		}
		if len(c.Data) >= 2 && c.Data[0] == 0x08 {
			c3 := c
			c3.Label, c3.Data = c.Label+" [overlong DataType tag]", append([]byte{0x88, 0x00}, c.Data[1:]...)
			out = append(out, c3)
		}
	}
	return out
}

// foreignADL: some other library's ADL node (string kind) over a dag-pb
// substrate. Not a dag-pb node, so reification must leave it alone.
type foreignADL struct {
	datamodel.Node
	sub datamodel.Node
}

func (f foreignADL) Substrate() datamodel.Node { return f.sub }

func runC14(r *core.Run) {
	r.Rule("bounded-exhaustive over the dispatch table: every basicnode kind and a dag-pb look-alike map (identity), dag-pb nodes with Data in {absent, empty, 6 garbage strings, each of the 6 valid types incl. shard with each invalid parameter, 4 out-of-range types} x link shapes {0,1,3} x {built, decoded} x {Reify, unixfs, unixfs-preload}; real builder-written files and shards for the multi-block variants; oracle = the statement's dispatch table + Substrate() identity + byte-exact re-encoding")
	s := store.New()
	ls := lsFor(s)
	link := cidlink.Link{Cid: c15Targets[0]}
	lookalike, _ := qp.BuildMap(basicnode.Prototype.Map, 2, func(ma datamodel.MapAssembler) {
		qp.MapEntry(ma, "Links", qp.List(0, func(datamodel.ListAssembler) {}))
		qp.MapEntry(ma, "Data", qp.Bytes([]byte{0x08, 0x01}))
	})
	list, _ := qp.BuildList(basicnode.Prototype.List, 1, func(la datamodel.ListAssembler) { qp.ListEntry(la, qp.Int(1)) })
	plain := map[string]datamodel.Node{
		"null": datamodel.Null, "bool": basicnode.NewBool(true), "int": basicnode.NewInt(7), "float": basicnode.NewFloat(1.5),
		"string": basicnode.NewString("s"), "bytes": basicnode.NewBytes([]byte{1, 2}), "link": basicnode.NewLink(link),
		"list": list, "map-lookalike": lookalike,
	}
	// ADL nodes that are not dag-pb: a file view over a raw bytes leaf, and a
	// foreign ADL whose substrate is a dag-pb node
	if rawFile, err := file.NewUnixFSFile(context.Background(), basicnode.NewBytes([]byte("raw-leaf")), ls); err == nil {
		plain["adl-file-over-raw-leaf"] = rawFile
	} else {
		r.InternalError("NewUnixFSFile over a bytes node: " + err.Error())
	}
	if pbn, err := buildPBNode(&model.PBNode{Data: fsData(1, nil), HasData: true}); err == nil {
		plain["adl-foreign-over-dagpb"] = foreignADL{Node: basicnode.NewString("foreign"), sub: pbn}
	}
	for _, k := range sortedKeys(plain) {
		for _, how := range []string{"Reify", "unixfs", "unixfs-preload"} {
			n, err := openVia(how, ls, plain[k])
			r.Evaluations.Add(1)
			r.Transitions.Add(1)
			r.Distinct("plain/" + k + "/" + how)
			if err != nil || n != plain[k] {
				r.Violate("non-dagpb-identity "+k+" "+how, fmt.Sprintf("Reify(%s) = (%T, %v), want the node itself", k, n, err), nil)
			}
		}
	}
	cases := c14Cases(r.Quick())
	core.ParallelFor(len(cases), workers, func(i int) {
		c := cases[i]
		r.Evaluations.Add(1)
		r.Distinct(c.String())
		if i%37 == 0 {
			r.Sample(c.String())
		}
		c.run(func(sig, detail string) { r.Violate(sig, detail, c) }, r)
	})
	// real DAGs: files of every small shape and sharded directories; check kind + substrate
	var files []fileCase
	if r.Quick() {
		files = smallFileFamily([]int{2}, []int{3}, []string{"distinct"}, []string{"ours", "balanced/raw=false/v1=false", "trickle/raw=false/v1=true"})
	} else {
		files = smallFileFamily([]int{2, 3}, []int{3}, []string{"distinct", "equal"}, allWriters())
	}
	core.ParallelFor(len(files), workers, func(i int) {
		c14Real(r, "file "+files[i].String(), func() (*store.Store, cid.Cid, error) {
			s, root, _, err := files[i].build()
			return s, root, err
		}, datamodel.Kind_Bytes, files[i])
	})
	// hand-written file encodings (BlockSizes absent / fewer / more than links,
	// FileSize absent, dag-pb leaves, packed sizes, empty root Data): files all
	// the same
	hands := gen.HandFamily()
	core.ParallelFor(len(hands), workers, func(i int) {
		h := hands[i]
		c14Real(r, h.Label, func() (*store.Store, cid.Cid, error) {
			s := store.New()
			root, _ := h.Build(s)
			return s, root, nil
		}, datamodel.Kind_Bytes, c05Case{Kind: "hand", Hand: h.Label})
		// lazy reification depends on the node alone, not on what the store can
		// serve: with every other block of the DAG unavailable Reify and the
		// "unixfs" reifier still give the file view over the loaded node
		s := store.New()
		root, _ := h.Build(s)
		ls := lsFor(s)
		rn, err := loadRoot(ls, root)
		if err != nil {
			return
		}
		for _, c := range s.Cids() {
			if !c.Equals(root) {
				s.Missing[string(c.Hash())] = store.NotFound
			}
		}
		for _, how := range []string{"Reify", "unixfs"} {
			var n datamodel.Node
			var rerr error
			if p, pv := core.Guard(func() { n, rerr = openVia(how, ls, rn) }); p {
				r.Violate("panic reify nothing-else-available "+how, fmt.Sprintf("%s: %v", h.Label, pv), nil)
				continue
			}
			r.Transitions.Add(1)
			if rerr != nil || n == nil {
				r.Violate("lazy-reify-depends-on-store "+how, fmt.Sprintf("%s: with only the root block available %s returns %v (with the whole DAG available it returns the file view)", h.Label, how, rerr), c05Case{Kind: "hand", Hand: h.Label})
			} else if n.Kind() != datamodel.Kind_Bytes {
				r.Violate("lazy-reify-depends-on-store "+how, fmt.Sprintf("%s: with only the root block available %s returns kind %v", h.Label, how, n.Kind()), c05Case{Kind: "hand", Hand: h.Label})
			}
		}
	})
	u := gen.Universe(8)
	var masks []int
	for m := 1; m < 1<<uint(len(u)); m++ {
		masks = append(masks, m)
	}
	core.ParallelFor(len(masks), workers, func(i int) {
		names := gen.SubsetOf(u, masks[i])
		for _, ref := range []bool{false, true} {
			ref := ref
			c14Real(r, fmt.Sprintf("shard ref=%v %q", ref, trimNames(names)), func() (*store.Store, cid.Cid, error) {
				s := store.New()
				es := gen.Leaves(s, names)
				var root cid.Cid
				var err error
				if ref {
					root, _, err = gen.RefShard(s, 8, es)
				} else {
					root, _, err = gen.OursSharded(s, 8, es)
				}
				return s, root, err
			}, datamodel.Kind_Map, dirCase{Builder: "sharded", Fanout: 8, Names: names})
		}
	})
}

// c14Real reifies a real DAG root (dag-pb roots only) and checks kind and
// substrate.
func c14Real(r0 *core.Run, desc string, build func() (*store.Store, cid.Cid, error), kind datamodel.Kind, replay any) {
	r := c14Sink{r: r0}
	if r0 == nil {
		r.out = c14ReplayOut
	}
	s, root, err := build()
	r.count(0)
	r.Distinct(desc)
	if err != nil {
		r.Violate("build-error", desc+": "+err.Error(), replay)
		return
	}
	if root.Prefix().Codec != cid.DagProtobuf {
		return
	}
	r.count(2)
	orig, _ := s.Raw(root)
	ls := lsFor(s)
	for _, how := range []string{"Reify", "unixfs-preload"} {
		rn, err := loadRoot(ls, root)
		if err != nil {
			r.InternalError(err.Error())
			return
		}
		n, err := openVia(how, ls, rn)
		r.count(1)
		if err != nil {
			r.Violate("real-reify-error "+how, desc+": "+err.Error(), replay)
			continue
		}
		if n.Kind() != kind {
			r.Violate("real-kind "+how, fmt.Sprintf("%s: kind %v want %v", desc, n.Kind(), kind), replay)
		}
		a, ok := n.(adl.ADL)
		if !ok {
			r.Violate("real-not-adl "+how, fmt.Sprintf("%s: %T", desc, n), replay)
			continue
		}
		sub := a.Substrate()
		what := "multi-block"
		if blk, err := model.Load(s, root); err == nil && blk.PB != nil && len(blk.PB.Links) == 0 {
			what = "single-block"
		}
		if sub != rn {
			r.Violate("real-substrate-identity "+what+" "+how, fmt.Sprintf("%s: Substrate() is %T (kind %s), not the loaded dag-pb node", desc, sub, kindOf(sub)), replay)
			continue
		}
		enc, err := encodePBNode(sub)
		if err != nil || !bytes.Equal(enc, orig) {
			r.Violate("real-substrate-reencode "+how, fmt.Sprintf("%s: err=%v", desc, err), replay)
		}
		// the same reification through a link system that reifies every node it
		// loads (NodeReifier): child blocks reach the library already interpreted
		if kind == datamodel.Kind_Map {
			lr := lsReifying(s)
			var n3 datamodel.Node
			var err3 error
			if p, pv := core.Guard(func() { n3, err3 = openVia(how, lr, rn) }); p {
				r.Violate("panic reify reifying-linksystem "+how, fmt.Sprintf("%s: %v", desc, pv), replay)
			} else if err3 != nil {
				r.Violate("real-reify-error reifying-linksystem "+how, desc+": "+err3.Error(), replay)
			} else if n3.Kind() != kind || n3.Length() != n.Length() {
				r.Violate("real-kind reifying-linksystem "+how, fmt.Sprintf("%s: kind %v length %d, with the plain link system kind %v length %d", desc, n3.Kind(), n3.Length(), n.Kind(), n.Length()), replay)
			}
			r.count(1)
		}
		// a reified node is not a dag-pb node: reifying it again (nested
		// interpret-as clauses do this) returns it unchanged
		for _, again := range []string{"Reify", "unixfs", "unixfs-preload"} {
			var n2 datamodel.Node
			var err2 error
			same := false
			if p, pv := core.Guard(func() { n2, err2 = openVia(again, ls, n); same = n2 == n }); p {
				r.Violate("panic re-reify "+how+" "+again, fmt.Sprintf("%s: %v", desc, pv), replay)
				continue
			}
			r.count(1)
			if err2 != nil || !same {
				r.Violate("non-dagpb-identity reified "+again, fmt.Sprintf("%s: %s of the node returned by %s = (%T, %v), want that node itself (%T)", desc, again, how, n2, err2, n), replay)
			}
		}
	}
}

// c14Sink lets c14Real report into a run or, when replaying, into a list.
type c14Sink struct {
	r   *core.Run
	out *[]string
}

var c14ReplayOut *[]string

func (k c14Sink) Violate(sig, detail string, replay any) {
	if k.r != nil {
		k.r.Violate(sig, detail, replay)
	} else if k.out != nil {
		*k.out = append(*k.out, sig+" :: "+detail)
	}
}
func (k c14Sink) InternalError(msg string) {
	if k.r != nil {
		k.r.InternalError(msg)
	} else if k.out != nil {
		*k.out = append(*k.out, "internal: "+msg)
	}
}
func (k c14Sink) Distinct(s string) bool {
	if k.r != nil {
		return k.r.Distinct(s)
	}
	return false
}
func (k c14Sink) count(which int) {
	if k.r == nil {
		return
	}
	switch which {
	case 0:
		k.r.Evaluations.Add(1)
	case 1:
		k.r.Transitions.Add(1)
	case 2:
		k.r.States.Add(1)
	}
}

func bytesRepeat(b byte, n int) []byte {
	out := make([]byte, n)
	for i := range out {
		out[i] = b
	}
	return out
}
