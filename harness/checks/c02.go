package checks

import (
	"encoding/binary"
	"encoding/json"
	"fmt"
	"math/bits"
	"strings"

	"github.com/ipfs/go-cid"
	quickbuilder "github.com/ipfs/go-unixfsnode/data/builder/quick"
	"github.com/ipld/go-ipld-prime"
	cidlink "github.com/ipld/go-ipld-prime/linking/cid"

	"verif/harness/core"
	"verif/harness/gen"
	"verif/harness/model"
	"verif/harness/store"
)

func init() {
	Registry["C02"] = runC02
	Replayers["C02"] = func(raw []byte) string {
		var c dirCase
		if err := json.Unmarshal(raw, &c); err != nil {
			return "bad case: " + err.Error()
		}
		var out []string
		c02Case(c, func(sig, detail string) { out = append(out, sig+" :: "+detail) }, nil)
		return joinLines(out)
	}
}

// dirCase identifies one directory build.
type dirCase struct {
	Builder string   `json:"builder"` // sharded | auto | quick | threshold-plain | threshold-sharded
	Fanout  int      `json:"fanout,omitempty"`
	Names   []string `json:"names,omitempty"`
	NGen    int      `json:"generated_names,omitempty"`
}

func (c dirCase) String() string {
	return fmt.Sprintf("%s F=%d n=%d gen=%d %q", c.Builder, c.Fanout, len(c.Names), c.NGen, trimNames(c.Names))
}

func (c dirCase) names() []string {
	switch c.Builder {
	case "threshold-plain":
		return thresholdNames(262144)
	case "threshold-sharded":
		return thresholdNames(262145)
	}
	if c.NGen > 0 {
		out := make([]string, c.NGen)
		for i := range out {
			out[i] = fmt.Sprintf("gen-%d-%x", i, i*2654435761)
		}
		return out
	}
	return c.Names
}

type quickLeaf struct {
	l  ipld.Link
	sz int64
}

func (q quickLeaf) Size() (int64, error) { return q.sz, nil }
func (q quickLeaf) Link() ipld.Link      { return q.l }

func (c dirCase) build(s *store.Store) (root cid.Cid, sz uint64, es []gen.DirEntry, err error) {
	es = gen.Leaves(s, c.names())
	switch c.Builder {
	case "sharded":
		root, sz, err = gen.OursSharded(s, c.Fanout, es)
	case "auto", "threshold-plain", "threshold-sharded":
		root, sz, err = gen.OursDir(s, es)
	case "quick":
		err = quickbuilder.Store(s.LinkSystem(), func(b *quickbuilder.Builder) error {
			m := map[string]quickbuilder.Node{}
			for _, e := range es {
				m[e.Name] = quickLeaf{cidlink.Link{Cid: e.Cid}, int64(e.Tsize)}
			}
			n := b.NewMapDirectory(m)
			if n == nil {
				return fmt.Errorf("NewMapDirectory returned nil")
			}
			root = n.Link().(cidlink.Link).Cid
			qsz, _ := n.Size()
			sz = uint64(qsz)
			return nil
		})
	default:
		err = fmt.Errorf("unknown builder %q", c.Builder)
	}
	return
}

func c02Case(c dirCase, viol func(sig, detail string), r *core.Run) {
	s := store.New()
	var root cid.Cid
	var es []gen.DirEntry
	var err error
	if p, pv := core.Guard(func() { root, _, es, err = c.build(s) }); p {
		viol("panic build "+c.Builder, fmt.Sprintf("%s: %v", c, pv))
		return
	}
	if err != nil {
		if c.Builder == "sharded" && model.TooDeep(c.names(), bits.TrailingZeros(uint(c.Fanout))) {
			return // two names agree in every addressable hash bit: no HAMT can hold them
		}
		viol("build-error "+c.Builder, fmt.Sprintf("%s: %v", c, err))
		return
	}
	want := map[string]string{}
	for _, e := range es {
		want[e.Name] = e.Cid.String()
	}
	blk, err := model.Load(s, root)
	if err != nil {
		viol("model-error", err.Error())
		return
	}
	isShard := blk.FS != nil && blk.FS.GetType() == 5
	switch c.Builder {
	case "threshold-plain":
		if isShard {
			viol("auto-shard-threshold", "estimate exactly 262144 was sharded (threshold is > 262144)")
		}
	case "threshold-sharded":
		if !isShard {
			viol("auto-shard-threshold", "estimate 262145 was not sharded")
		}
	case "sharded":
		if !isShard {
			viol("sharded-kind", "BuildUnixFSShardedDirectory did not write a shard root")
		}
	}
	var non []string
	if len(want) <= 64 {
		for _, n := range gen.Universe(13) {
			non = append(non, n)
		}
		non = append(non, gen.ExtremeUniverse()...)
		for n := range want {
			non = append(non, "00"+n, "0"+n, n+"x", strings.ToUpper(n)+"~")
			if len(n) > 2 {
				non = append(non, n[2:], n[:len(n)-1])
			}
		}
		non = append(non, "", "nope")
		// small sharded directories: one absent name for EVERY bucket of the
		// root (names with engineered hashes), so that every position of the
		// root's bitfield, set or clear, stored or trimmed away, is asked for
		if c.Builder == "sharded" && len(want) <= 2 && c.Fanout > 0 {
			non = append(non, bucketProbes(c.Fanout)...)
		}
	} else {
		non = []string{"nope", "gen-x", "00gen-0-0", ""}
	}
	// the statement's entries have non-empty names; "" must still be absent
	ls := lsFor(s)
	for _, how := range []string{"Reify", "unixfs-preload"} {
		rn, err := loadRoot(ls, root)
		if err != nil {
			viol("load-root", err.Error())
			return
		}
		n, err := openVia(how, ls, rn)
		if err != nil {
			viol("reify-error "+c.Builder, fmt.Sprintf("%s via %s: %v", c, how, err))
			continue
		}
		if r != nil {
			r.Transitions.Add(int64(len(want) + len(non) + 2))
		}
		if p, pv := core.Guard(func() {
			mapView(n, want, non, func(sig, detail string) {
				viol(sig+" "+c.Builder, fmt.Sprintf("%s via %s: %s", c, how, detail))
			})
		}); p {
			viol("panic dir-view "+c.Builder, fmt.Sprintf("%s via %s: %v", c, how, pv))
		}
		if len(want) > 64 {
			break
		}
	}
	// the whole-directory operations in every order, each order on a fresh node
	if len(want) <= 64 {
		for _, how := range []string{"Reify", "unixfs-preload"} {
			how := how
			if p, pv := core.Guard(func() {
				k := dirOpOrders(func() (ipld.Node, error) {
					rn, err := loadRoot(ls, root)
					if err != nil {
						return nil, err
					}
					return openVia(how, ls, rn)
				}, want, len(want) <= 3, func(sig, detail string) {
					viol(sig+" "+c.Builder, fmt.Sprintf("%s via %s: %s", c, how, detail))
				})
				if r != nil {
					r.Transitions.Add(int64(4 * k))
				}
			}); p {
				viol("panic dir-op-orders "+c.Builder, fmt.Sprintf("%s via %s: %v", c, how, pv))
			}
		}
	}
	// the same directory through a link system that reifies every node it
	// loads (NodeReifier = unixfsnode.Reify): the root arrives as a directory
	// already, child shards reach the library already interpreted
	if len(want) <= 64 {
		lr := lsReifying(s)
		if n, err := loadRoot(lr, root); err != nil {
			viol("reify-error reifying-linksystem "+c.Builder, fmt.Sprintf("%s: %v", c, err))
		} else if p, pv := core.Guard(func() {
			mapView(n, want, non, func(sig, detail string) {
				viol(sig+" reifying-linksystem "+c.Builder, fmt.Sprintf("%s loaded through a reifying link system: %s", c, detail))
			})
		}); p {
			viol("panic dir-view reifying-linksystem "+c.Builder, fmt.Sprintf("%s: %v", c, pv))
		}
	}
	if r != nil {
		r.States.Add(1)
	}
}

// hashBitsSweep compares the builder-side and reader-side bit extraction with
// plain arithmetic for every width and level over a 130-vector basis.
func hashBitsSweep(r *core.Run) {
	if !hooksAvailable {
		r.Cap("the verif-tagged hooks of /repo do not build against this tree: the bit-extraction sweep (private helpers) is skipped")
		return
	}
	var basis [][8]byte
	add := func(v uint64) {
		var b [8]byte
		binary.BigEndian.PutUint64(b[:], v)
		basis = append(basis, b)
	}
	add(0)
	add(^uint64(0))
	for i := 0; i < 64; i++ {
		add(uint64(1) << uint(i))
		add(^(uint64(1) << uint(i)))
	}
	add(0x0123456789abcdef)
	add(0xfedcba9876543210)
	for _, v := range basis {
		h := binary.BigEndian.Uint64(v[:])
		for w := 1; w <= 12; w++ {
			levels := 64 / w
			widths := make([]int, levels+1)
			for i := range widths {
				widths[i] = w
			}
			var got []int
			var err error
			if p, pv := core.Guard(func() { got, err = hookHashBitsNext(v[:], widths) }); p {
				r.Violate(fmt.Sprintf("panic hashbits-next w=%d", w), fmt.Sprintf("hash %016x, %d x %d bits: %v", h, levels+1, w, pv), nil)
				continue
			}
			r.Transitions.Add(1)
			if err == nil {
				r.Violate("hashbits-next-overlong", fmt.Sprintf("reader Next accepted %d x %d bits from a 64-bit hash", levels+1, w), nil)
			}
			if len(got) != levels {
				r.Violate("hashbits-next-levels", fmt.Sprintf("w=%d: reader produced %d levels want %d (err=%v)", w, len(got), levels, err), nil)
				continue
			}
			for l := 0; l < levels; l++ {
				want, _ := model.Bucket(h, l, w)
				if got[l] != want {
					r.Violate(fmt.Sprintf("hashbits-next w=%d level=%d", w, l), fmt.Sprintf("hash %016x: reader %d, arithmetic %d", h, got[l], want), nil)
				}
				var bs int
				if p, pv := core.Guard(func() { bs, err = hookHashBitsSlice(v[:], l*w, w) }); p {
					r.Violate(fmt.Sprintf("panic hashbits-slice w=%d level=%d", w, l), fmt.Sprintf("hash %016x: %v", h, pv), nil)
					continue
				}
				r.Transitions.Add(1)
				if err != nil || bs != want {
					r.Violate(fmt.Sprintf("hashbits-slice w=%d level=%d", w, l), fmt.Sprintf("hash %016x: builder %d (err=%v), arithmetic %d", h, bs, err, want), nil)
				}
			}
			if p, pv := core.Guard(func() {
				if _, err := hookHashBitsSlice(v[:], levels*w, w); err == nil && (levels+1)*w > 64 {
					r.Violate("hashbits-slice-overlong", fmt.Sprintf("builder Slice(%d,%d) accepted", levels*w, w), nil)
				}
			}); p {
				r.Violate(fmt.Sprintf("panic hashbits-slice-overlong w=%d", w), fmt.Sprint(pv), nil)
			}
			r.Evaluations.Add(1)
		}
	}
	r.Set("hashbits_vectors", len(basis))
}

func runC02(r *core.Run) {
	r.Rule("bounded-exhaustive: every non-empty subset of a hash-colliding + awkward-name universe x every fanout 8..1024 through BuildUnixFSShardedDirectory; every subset through BuildUnixFSDirectory and the quick builder; estimate exactly at/above the auto-shard threshold; large generated sets; each reified (lazy + preload) and compared with the map of its entries: member/non-member lookups by 4 entry points, both iterators, Length; plus exhaustive (width,level) agreement of both hashBits helpers with plain arithmetic over a 132-vector basis")
	usize := 10
	fanouts := []int{8, 16, 32, 64, 128, 256, 512, 1024}
	if !r.Quick() {
		usize = 13
	}
	u := gen.Universe(usize)
	var cases []dirCase
	for mask := 0; mask < 1<<uint(len(u)); mask++ {
		names := gen.SubsetOf(u, mask)
		if mask > 0 {
			for _, f := range fanouts {
				cases = append(cases, dirCase{Builder: "sharded", Fanout: f, Names: names})
			}
		} else {
			// the empty sharded directory, at every fanout
			for _, f := range fanouts {
				cases = append(cases, dirCase{Builder: "sharded", Fanout: f, Names: nil})
			}
		}
		if mask < 1024 {
			cases = append(cases, dirCase{Builder: "auto", Names: names})
			if mask%3 == 0 {
				cases = append(cases, dirCase{Builder: "quick", Names: names})
			}
		}
	}
	du := gen.DeepUniverse()
	step := 5
	if !r.Quick() {
		step = 1
	}
	for mask := 1; mask < 1<<uint(len(du)); mask += step {
		cases = append(cases, dirCase{Builder: "sharded", Fanout: 8, Names: gen.SubsetOf(du, mask)})
		if mask%16 == 1 {
			cases = append(cases, dirCase{Builder: "sharded", Fanout: 1024, Names: gen.SubsetOf(du, mask)})
		}
	}
	// names with engineered hashes: buckets 0 and max at every level, pairs that
	// separate only at the deepest addressable level of each fanout
	xu := gen.ExtremeUniverse()
	for mask := 1; mask < 1<<uint(len(xu)); mask++ {
		for _, f := range fanouts {
			cases = append(cases, dirCase{Builder: "sharded", Fanout: f, Names: gen.SubsetOf(xu, mask)})
		}
	}
	// a full 64-bit collision: the builder has to refuse the set (whatever the
	// order), never drop or confuse an entry
	ca, cb := gen.CollidingPair()
	for _, f := range fanouts {
		cases = append(cases, dirCase{Builder: "sharded", Fanout: f, Names: []string{ca, cb}}, dirCase{Builder: "sharded", Fanout: f, Names: []string{cb, "k75", ca}})
	}
	// names that are not valid UTF-8 (dag-pb names are byte strings in practice):
	// nothing on the way may pass them through a rune conversion
	bu := []string{"\xff", "\xfe", "caf\xe9.txt", "\xc3", "ok", "\xef\xbf\xbd"}
	for mask := 1; mask < 1<<uint(len(bu)); mask++ {
		for _, f := range []int{8, 256} {
			cases = append(cases, dirCase{Builder: "sharded", Fanout: f, Names: gen.SubsetOf(bu, mask)})
		}
		cases = append(cases, dirCase{Builder: "auto", Names: gen.SubsetOf(bu, mask)})
	}
	// names longer than any scratch buffer a builder might hash or format them
	// in (255 is the longest name the universe had so far): 256, 257, 300 and
	// 1000 bytes, two of them sharing their first 256 bytes
	long := strings.Repeat("n", 256)
	lu := []string{long, long + "x", long + "y-and-more", strings.Repeat("q", 300), strings.Repeat("é", 500), "short"}
	for mask := 1; mask < 1<<uint(len(lu)); mask++ {
		for _, f := range []int{8, 256} {
			cases = append(cases, dirCase{Builder: "sharded", Fanout: f, Names: gen.SubsetOf(lu, mask)})
		}
		if mask%4 == 1 {
			cases = append(cases, dirCase{Builder: "auto", Names: gen.SubsetOf(lu, mask)})
		}
	}
	r.Set("extreme_universe", xu)
	cases = append(cases, dirCase{Builder: "threshold-plain"}, dirCase{Builder: "threshold-sharded"})
	// two child shards under one root, at every pair of buckets (with and
	// without a value link in front of them): bucket numbers and link positions
	// are different things and every combination of the two occurs
	for _, fw := range [][2]int{{8, 3}, {16, 4}} {
		f, w := fw[0], fw[1]
		deeper := gen.BucketProbeNames[2*w] // f names per bucket of the root
		for x := 0; x < f; x++ {
			for y := x + 1; y < f; y++ {
				names := []string{deeper[x*f], deeper[x*f+1], deeper[y*f], deeper[y*f+1]}
				cases = append(cases, dirCase{Builder: "sharded", Fanout: f, Names: names})
				if x > 0 && (x+y)%3 == 0 {
					cases = append(cases, dirCase{Builder: "sharded", Fanout: f, Names: append([]string{deeper[0]}, names...)})
				}
			}
		}
	}
	cases = append(cases, dirCase{Builder: "sharded", Fanout: 256, NGen: 2000}, dirCase{Builder: "sharded", Fanout: 8, NGen: 600})
	if !r.Quick() {
		cases = append(cases, dirCase{Builder: "sharded", Fanout: 256, NGen: 20000}, dirCase{Builder: "sharded", Fanout: 1024, NGen: 20000}, dirCase{Builder: "sharded", Fanout: 16, NGen: 5000})
	}
	core.ParallelFor(len(cases), workers, func(i int) {
		c := cases[i]
		r.Evaluations.Add(1)
		r.Distinct(c.String())
		if i%997 == 0 {
			r.Sample(c.String())
		}
		c02Case(c, func(sig, detail string) { r.Violate(sig, detail, c) }, r)
	})
	hashBitsSweep(r)
	r.Set("universe", trimNames(u))
	r.Set("deep_universe", du)
}

// bucketProbes: for fanout f, f names whose murmur3 hash selects root bucket
// 0, 1, ..., f-1 (precomputed by murmur3 inversion: gen/bucketprobes_data.go).
func bucketProbes(f int) []string {
	w := 0
	for 1<<uint(w) < f {
		w++
	}
	return gen.BucketProbeNames[w]
}
