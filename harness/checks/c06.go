package checks

import (
	"context"
	"encoding/json"
	"fmt"
	"strings"

	"github.com/ipfs/go-cid"
	unixfsnode "github.com/ipfs/go-unixfsnode"
	"github.com/ipld/go-ipld-prime"

	"verif/harness/core"
	"verif/harness/gen"
	"verif/harness/store"
	"verif/harness/xplore"
)

func init() {
	Registry["C06"] = runC06
	Replayers["C06"] = func(raw []byte) string {
		var c c06Replay
		if err := json.Unmarshal(raw, &c); err != nil {
			return "bad case: " + err.Error()
		}
		var out []string
		viol := func(sig, detail string) { out = append(out, sig+" :: "+detail) }
		d, err := c12Build(c.Case)
		if err != nil {
			return "build: " + err.Error()
		}
		if c.CancelAt > 0 {
			c06Cancelled(d, c.Via, c.CancelAt, c.Honour, viol)
		} else if c.Choices != nil {
			xplore.RunOne(c.Choices, nil, 0, func(x *xplore.Ctx) string { return c06Transient(d, c.Via, x, viol) })
		} else if c.Missing != "" && c.Kind == -1 {
			mc, _ := cid.Decode(c.Missing)
			c06Corrupt(d, c.Via, mc, viol)
		} else if c.Missing != "" {
			mc, _ := cid.Decode(c.Missing)
			c06Withheld(d, c.Via, mc, store.ErrKind(c.Kind), viol)
		} else {
			c06FetchSet(d, viol, nil)
		}
		return joinLines(out)
	}
}

type c06Replay struct {
	Case    c05Case `json:"case"`
	Via     string  `json:"via,omitempty"`
	Missing string  `json:"missing,omitempty"`
	Kind    int     `json:"kind,omitempty"`
	Choices []int   `json:"choices,omitempty"`
	// CancelAt > 0: the access's context is cancelled during that load
	CancelAt int  `json:"cancel_at,omitempty"`
	Honour   bool `json:"storage_honours_context,omitempty"`
}

var c06Vias = []string{"preload-reifier", "preload-selector", "entity-selector"}

// c06ViasFor: files are additionally accessed through a reifying link system.
func c06ViasFor(d *c12Dag) []string {
	if d.tree != nil && d.c.Kind == "file" {
		return append(append([]string{}, c06Vias...), "preload-reifier/reifying-ls", "preload-selector/reifying-ls", "entity-selector/reifying-ls")
	}
	return c06Vias
}

// c06Do performs the whole-entity access through one of the three routes.
func c06Do(d *c12Dag, via string) error {
	ls := lsFor(d.s)
	// ".../reifying-ls": the same access through a link system that reifies
	// every node it loads (children reach the library already interpreted); the
	// root itself is loaded plain
	if strings.HasSuffix(via, "/reifying-ls") {
		via = strings.TrimSuffix(via, "/reifying-ls")
		ls = lsReifying(d.s)
	}
	switch via {
	case "preload-reifier":
		rn, err := loadRoot(lsFor(d.s), d.root)
		if err != nil {
			return fmt.Errorf("harness: load root: %w", err)
		}
		_, err = openVia("unixfs-preload", ls, rn)
		return err
	case "preload-selector":
		return walkMatching(ls, d.root, unixfsnode.MatchUnixFSPreloadSelector.Node(), unixfsnode.BytesConsumingMatcher)
	case "entity-selector":
		return walkMatching(ls, d.root, unixfsnode.MatchUnixFSEntitySelector.Node(), unixfsnode.BytesConsumingMatcher)
	}
	return fmt.Errorf("unknown route %s", via)
}

// c06FetchSet: without faults the requested set is exactly the entity.
func c06FetchSet(d *c12Dag, viol func(sig, detail string), r *core.Run) {
	want := map[string]bool{}
	for _, b := range d.blocks {
		want[b.KeyString()] = true
	}
	// sharded directories are accessed twice (fresh link system and node each
	// time): what an earlier access left behind in the process must not stand in
	// for blocks of a later one
	vias := c06ViasFor(d)
	if d.hm != nil {
		vias = append(append([]string{}, c06Vias...), c06Vias...)
	}
	for _, via := range vias {
		d.s.ResetLogs()
		var err error
		if p, pv := core.Guard(func() { err = c06Do(d, via) }); p {
			viol("panic "+via, fmt.Sprintf("%s: %v", d.c, pv))
			continue
		}
		if r != nil {
			r.Transitions.Add(1)
		}
		if err != nil && !d.mayRefuse {
			viol("error-without-fault "+via, fmt.Sprintf("%s: %v", d.c, err))
			continue
		}
		refused := err != nil
		got := map[string]bool{}
		var extra []cid.Cid
		for _, c := range d.s.Reads() {
			if c.Equals(d.root) {
				continue // the traversal (or the caller) loads the root itself
			}
			got[c.KeyString()] = true
			if !want[c.KeyString()] {
				extra = append(extra, c)
			}
		}
		if len(extra) > 0 {
			viol("fetch-beyond-entity "+via+" "+d.c.Kind, fmt.Sprintf("%s: requested %s which are not blocks of the entity (entry blocks?)", d.c, shortList(extra)))
		}
		var missing []cid.Cid
		for _, b := range d.blocks {
			if !got[b.KeyString()] {
				missing = append(missing, b)
			}
		}
		if len(missing) > 0 && !refused {
			class := ""
			if d.tree != nil {
				// leading empty chunks are the known finding; an empty chunk
				// that follows data is opened by the unmodified reader
				lead, empty := d.tree.LeadingEmpty(), d.tree.EmptySpan()
				class = " leading-empty-chunks-only"
				for _, m := range missing {
					if !lead[m.KeyString()] {
						class = " empty-chunks-only"
					}
				}
				for _, m := range missing {
					if !empty[m.KeyString()] {
						class = ""
					}
				}
			}
			viol("entity-not-fully-fetched "+via+" "+d.c.Kind+class, fmt.Sprintf("%s: %d of %d entity blocks never requested: %s", d.c, len(missing), len(d.blocks), shortList(missing)))
		}
	}
}

// c06Withheld: one block of the entity is unavailable -> the access must fail.
func c06Withheld(d *c12Dag, via string, miss cid.Cid, kind store.ErrKind, viol func(sig, detail string)) {
	d.s.Missing = map[string]store.ErrKind{string(miss.Hash()): kind}
	defer func() { d.s.Missing = map[string]store.ErrKind{} }()
	d.s.ResetLogs()
	var err error
	if p, pv := core.Guard(func() { err = c06Do(d, via) }); p {
		viol("panic "+via, fmt.Sprintf("%s missing %s: %v", d.c, short(miss), pv))
		return
	}
	if err == nil {
		class := ""
		if d.tree != nil && d.tree.EmptySpan()[miss.KeyString()] {
			class = " empty-chunks-only"
			if d.tree.LeadingEmpty()[miss.KeyString()] {
				class = " leading-empty-chunks-only"
			}
		}
		viol("partial-entity-no-error "+via+" "+d.c.Kind+class, fmt.Sprintf("%s: block %s (kind %d) is unavailable but %s returned no error", d.c, short(miss), kind, via))
	}
}

// c06DoCtx: like c06Do, with everything after the load of the root running
// under ctx.
func c06DoCtx(ctx context.Context, d *c12Dag, via string) error {
	ls := lsFor(d.s)
	switch via {
	case "preload-reifier":
		rn, err := loadRoot(ls, d.root)
		if err != nil {
			return fmt.Errorf("harness: load root: %w", err)
		}
		_, err = ls.KnownReifiers["unixfs-preload"](ipld.LinkContext{Ctx: ctx}, rn, ls)
		return err
	case "preload-selector":
		return walkMatchingCtx(ctx, ls, d.root, unixfsnode.MatchUnixFSPreloadSelector.Node(), unixfsnode.BytesConsumingMatcher)
	case "entity-selector":
		return walkMatchingCtx(ctx, ls, d.root, unixfsnode.MatchUnixFSEntitySelector.Node(), unixfsnode.BytesConsumingMatcher)
	}
	return fmt.Errorf("unknown route %s", via)
}

// c06Cancelled: the context of the access is cancelled while its k-th block
// (not counting the root) is being loaded. Whether the storage then refuses
// further loads (honour=true) or keeps serving them, the access either fails
// or has requested the whole entity: a cancelled context is no reason to
// report a partial entity as complete.
func c06Cancelled(d *c12Dag, via string, k int, honour bool, viol func(sig, detail string)) {
	ctx, cancel := context.WithCancel(context.Background())
	defer cancel()
	d.s.ResetLogs()
	d.s.IgnoreCtx = !honour
	n := 0
	d.s.OnRead = func(c cid.Cid, nth int) error {
		if c.Equals(d.root) {
			return nil
		}
		n++
		if n == k {
			cancel()
		}
		return nil
	}
	defer func() { d.s.OnRead = nil; d.s.IgnoreCtx = false }()
	var err error
	if p, pv := core.Guard(func() { err = c06DoCtx(ctx, d, via) }); p {
		viol("panic cancelled "+via, fmt.Sprintf("%s cancel at load %d: %v", d.c, k, pv))
		return
	}
	if err != nil {
		return
	}
	got := map[string]bool{}
	for _, c := range d.s.Reads() {
		got[c.KeyString()] = true
	}
	var never []cid.Cid
	var empty map[string]bool
	if d.tree != nil {
		empty = d.tree.EmptySpan()
	}
	for _, b := range d.blocks {
		if !got[b.KeyString()] && !empty[b.KeyString()] {
			never = append(never, b)
		}
	}
	if len(never) > 0 {
		viol("partial-entity-no-error cancelled-context "+via+" "+d.c.Kind, fmt.Sprintf("%s: the context was cancelled during load #%d (storage honours it: %v); %s returned no error although %d of %d entity blocks were never requested (%s)", d.c, k, honour, via, len(never), len(d.blocks), shortList(never)))
	}
}

// c06Corrupt: one entity block is served with bytes that do not hash to its
// CID, through a link system that verifies what it loads (the default of
// cidlink.DefaultLinkSystem): such a block cannot be loaded, so the access
// fails -- it never succeeds on top of bytes nobody vouched for.
func c06Corrupt(d *c12Dag, via string, blk cid.Cid, viol func(sig, detail string)) {
	d.s.Corrupt = map[string]bool{string(blk.Hash()): true}
	d.s.Verify = true
	defer func() { d.s.Corrupt, d.s.Verify = nil, false }()
	d.s.ResetLogs()
	var err error
	if p, pv := core.Guard(func() { err = c06Do(d, via) }); p {
		viol("panic corrupt "+via, fmt.Sprintf("%s corrupt %s: %v", d.c, short(blk), pv))
		return
	}
	if err == nil {
		viol("partial-entity-no-error corrupt-block "+via+" "+d.c.Kind, fmt.Sprintf("%s: block %s is served with bytes that do not match its CID (verifying link system) but %s returned no error", d.c, short(blk), via))
	}
}

func c06Transient(d *c12Dag, via string, x *xplore.Ctx, viol func(sig, detail string)) string {
	failed := 0
	loaded := map[string]bool{}
	d.s.ResetLogs()
	d.s.OnRead = func(c cid.Cid, nth int) error {
		if c.Equals(d.root) {
			return nil
		}
		if k := x.Choose(1+len(store.AllKinds), "load"); k > 0 {
			failed++
			return store.MakeErr(store.AllKinds[k-1], c)
		}
		loaded[c.KeyString()] = true
		return nil
	}
	defer func() { d.s.OnRead = nil }()
	err := c06Do(d, via)
	if failed > 0 && err == nil {
		// a load that failed once and succeeded when the block was requested
		// again leaves nothing partial; what must not happen is success with an
		// entity block that was never loaded
		var never []cid.Cid
		var empty map[string]bool
		if d.tree != nil {
			empty = d.tree.EmptySpan()
		}
		for _, b := range d.blocks {
			if !loaded[b.KeyString()] && !empty[b.KeyString()] {
				never = append(never, b)
			}
		}
		if len(never) > 0 {
			viol("partial-entity-no-error "+via+" "+d.c.Kind, fmt.Sprintf("%s: %d load(s) failed (choices %v), blocks %s were never loaded, but %s returned no error", d.c, failed, x.Choices, shortList(never), via))
		}
	}
	if failed == 0 && err != nil && !d.mayRefuse {
		viol("error-without-fault "+via, fmt.Sprintf("%s: %v", d.c, err))
	}
	return fmt.Sprintf("%s failed=%d err=%v", via, failed, err != nil)
}

func runC06(r *core.Run) {
	r.Rule("bounded-exhaustive + fault enumeration: every file shape (w in {2,3}; both writers) and every sharded directory of the universe subsets (F in {8,16,256}; reference-written too), plain directories, through {unixfs-preload reifier, preload selector traversal, entity selector traversal + BytesConsumingMatcher}: requested set == all entity blocks (independent model) and no entry block; every single entity block withheld (both error kinds) must yield an error; stateless DFS over 'k-th load fails' with deviation bound 2")
	var cases []c05Case
	var files []fileCase
	writers := []string{"ours", "balanced/raw=false/v1=false", "trickle/raw=true/v1=true"}
	if r.Quick() {
		files = smallFileFamily([]int{2}, []int{3}, []string{"distinct", "equal"}, writers)
		files = append(files, smallFileFamily([]int{3}, []int{3}, []string{"distinct"}, writers[:1])...)
	} else {
		files = smallFileFamily([]int{2, 3}, []int{3}, []string{"distinct", "equal"}, allWriters())
		files = append(files, smallFileFamily([]int{4}, []int{1}, []string{"distinct"}, writers[:1])...)
	}
	for _, f := range files {
		cases = append(cases, c05Case{Kind: "file", File: f})
	}
	// legal encodings neither writer emits: dag-pb leaves, absent BlockSizes /
	// FileSize, empty chunks in the middle
	for _, h := range gen.HandFamily() {
		cases = append(cases, c05Case{Kind: "hand", Hand: h.Label})
	}
	// DAGs whose root under-declares a size: whole-entity walks do not depend on it
	for _, h := range gen.HandLiars() {
		cases = append(cases, c05Case{Kind: "hand", Hand: h.Label})
	}
	// decodable shard DAGs neither writer emits: child shards of another fanout
	// (prefix width) than their parent
	for _, l := range gen.HandShardLabels() {
		cases = append(cases, c05Case{Kind: "handshard", Hand: l})
	}
	usize := 9
	fanouts := []int{8, 16, 256}
	if !r.Quick() {
		usize = 11
		fanouts = []int{8, 16, 32, 64, 128, 256, 512, 1024}
	}
	u := gen.Universe(usize)
	for mask := 1; mask < 1<<uint(len(u)); mask++ {
		for _, f := range fanouts {
			cases = append(cases, c05Case{Kind: "shard", Fanout: f, Names: gen.SubsetOf(u, mask)})
			if mask%9 == 0 {
				cases = append(cases, c05Case{Kind: "shard", Fanout: f, Names: gen.SubsetOf(u, mask), Ref: true})
			}
		}
	}
	du := gen.DeepUniverse()
	for mask := 1; mask < 1<<uint(len(du)); mask += 11 {
		cases = append(cases, c05Case{Kind: "shard", Fanout: 8, Names: gen.SubsetOf(du, mask)})
	}
	var withheld, execs int64Counter
	groups := map[int][]c05Case{}
	for _, c := range cases {
		groups[c.File.W] = append(groups[c.File.W], c)
	}
	for _, w := range []int{0, 2, 3, 4} {
		g := groups[w]
		core.ParallelFor(len(g), workers, func(i int) {
			c := g[i]
			d, err := c12Build(c)
			r.Evaluations.Add(1)
			r.Distinct(c.String())
			if err != nil {
				r.Violate("build-error", c.String()+": "+err.Error(), c06Replay{Case: c})
				return
			}
			r.States.Add(1)
			if i%311 == 0 {
				r.Sample(map[string]any{"dag": c.String(), "entity_blocks": len(d.blocks)})
			}
			c06FetchSet(d, func(sig, detail string) { r.Violate(sig, detail, c06Replay{Case: c}) }, r)
			for _, via := range c06ViasFor(d) {
				for _, b := range d.blocks {
					for _, kind := range store.AllKinds {
						withheld.add(1)
						c06Withheld(d, via, b, kind, func(sig, detail string) {
							r.Violate(sig, detail, c06Replay{Case: c, Via: via, Missing: b.String(), Kind: int(kind)})
						})
					}
				}
				// every single block corrupt (verifying link system); blocks the
				// access never needs (leading empty chunks: the known finding) aside
				if !d.mayRefuse {
					var empty map[string]bool
					if d.tree != nil {
						empty = d.tree.EmptySpan()
					}
					for _, b := range d.blocks {
						if empty[b.KeyString()] || b.Prefix().MhType == 0x00 {
							continue
						}
						withheld.add(1)
						c06Corrupt(d, via, b, func(sig, detail string) {
							r.Violate(sig, detail, c06Replay{Case: c, Via: via, Missing: b.String(), Kind: -1})
						})
					}
				}
				// the access's context cancelled during its k-th load, for every k
				if !d.mayRefuse {
					for k := 1; k <= len(d.blocks); k++ {
						for _, honour := range []bool{true, false} {
							withheld.add(1)
							c06Cancelled(d, via, k, honour, func(sig, detail string) {
								r.Violate(sig, detail, c06Replay{Case: c, Via: via, CancelAt: k, Honour: honour})
							})
						}
					}
				}
				ex := &xplore.Explorer{Bound: 2, Horizon: 2000, Replay: 1, OnDiverge: func(ch []int, a, b string) {
					r.InternalError(fmt.Sprintf("nondeterministic replay %s %v: %q vs %q", c, ch, a, b))
				}}
				ex.Explore(func(x *xplore.Ctx) string {
					return c06Transient(d, via, x, func(sig, detail string) {
						r.Violate(sig, detail, c06Replay{Case: c, Via: via, Choices: append([]int{}, x.Choices...)})
					})
				}, func(res xplore.Result) {
					if res.Panic != nil {
						r.Violate("panic transient "+via, fmt.Sprintf("%s %v: %v", c, res.Choices, res.Panic), c06Replay{Case: c, Via: via, Choices: res.Choices})
					}
				})
				execs.add(int64(ex.Stats.Executions))
				r.Transitions.Add(int64(ex.Stats.ChoicePoints))
			}
		})
	}
	// plain directories request nothing beyond the root
	pu := gen.Universe(6)
	for mask := 0; mask < 1<<uint(len(pu)); mask++ {
		s := store.New()
		root, _, err := gen.OursDir(s, gen.Leaves(s, gen.SubsetOf(pu, mask)))
		r.Evaluations.Add(1)
		if err != nil {
			r.Violate("build-error plain", err.Error(), nil)
			continue
		}
		d := &c12Dag{c: c05Case{Kind: "plain", Names: gen.SubsetOf(pu, mask)}, s: s, root: root}
		c06FetchSet(d, func(sig, detail string) { r.Violate(sig, detail, nil) }, r)
	}
	r.Set("single_block_withheld_runs", withheld.n)
	r.Set("transient_fault_executions", execs.n)
	r.Set("deviation_bound_completed", 2)
	r.Evaluations.Add(withheld.n + execs.n)
	r.Traces.Add(withheld.n + execs.n)
}
