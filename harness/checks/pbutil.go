package checks

import (
	"bytes"

	dagpb "github.com/ipld/go-codec-dagpb"
	"github.com/ipld/go-ipld-prime"
	"github.com/ipld/go-ipld-prime/fluent/qp"
	cidlink "github.com/ipld/go-ipld-prime/linking/cid"

	"verif/harness/model"
)

// buildPBNode assembles a dag-pb node directly (link order preserved, nothing
// sorted or validated beyond what the dag-pb node builder itself does).
func buildPBNode(n *model.PBNode) (dagpb.PBNode, error) {
	nd, err := qp.BuildMap(dagpb.Type.PBNode, 2, func(ma ipld.MapAssembler) {
		qp.MapEntry(ma, "Links", qp.List(int64(len(n.Links)), func(la ipld.ListAssembler) {
			for _, l := range n.Links {
				l := l
				qp.ListEntry(la, qp.Map(3, func(ma ipld.MapAssembler) {
					qp.MapEntry(ma, "Hash", qp.Link(cidlink.Link{Cid: l.Cid}))
					if l.HasName {
						qp.MapEntry(ma, "Name", qp.String(l.Name))
					}
					if l.HasTsize {
						qp.MapEntry(ma, "Tsize", qp.Int(int64(l.Tsize)))
					}
				}))
			}
		}))
		if n.HasData {
			qp.MapEntry(ma, "Data", qp.Bytes(n.Data))
		}
	})
	if err != nil {
		return nil, err
	}
	return nd.(dagpb.PBNode), nil
}

// decodePBNode decodes block bytes with the dag-pb codec.
func decodePBNode(b []byte) (dagpb.PBNode, error) {
	nb := dagpb.Type.PBNode.NewBuilder()
	if err := dagpb.DecodeBytes(nb, b); err != nil {
		return nil, err
	}
	return nb.Build().(dagpb.PBNode), nil
}

// encodePBNode encodes a node with the dag-pb codec.
func encodePBNode(n ipld.Node) ([]byte, error) {
	var buf bytes.Buffer
	if err := dagpb.Encode(n, &buf); err != nil {
		return nil, err
	}
	return buf.Bytes(), nil
}
