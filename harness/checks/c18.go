package checks

import (
	"bytes"
	"encoding/json"
	"fmt"
	"os"
	"path/filepath"
	"sort"
	"strings"
	"syscall"

	pb "github.com/ipfs/boxo/ipld/unixfs/pb"
	"github.com/ipfs/go-cid"
	"github.com/ipfs/go-unixfsnode/data/builder"
	"github.com/ipld/go-ipld-prime"
	"github.com/ipld/go-ipld-prime/datamodel"
	cidlink "github.com/ipld/go-ipld-prime/linking/cid"

	"verif/harness/core"
	"verif/harness/gen"
	"verif/harness/model"
	"verif/harness/store"
)

func init() {
	Registry["C18"] = runC18
	Replayers["C18"] = func(raw []byte) string {
		var c fsCase
		if err := json.Unmarshal(raw, &c); err != nil {
			return "bad case: " + err.Error()
		}
		var out []string
		c.run(scratchBase(), 0, func(sig, detail string) { out = append(out, sig+" :: "+detail) })
		return joinLines(out)
	}
}

// fsSpec describes an on-disk tree. Kinds: D dir, E empty file, F 5-byte
// file, M multi-chunk file, Lr/La/Ld symlinks (relative, absolute, dangling),
// P fifo, S unix socket.
type fsSpec struct {
	Kind     string   `json:"k"`
	Children []fsSpec `json:"c,omitempty"`
	NGen     int      `json:"gen,omitempty"` // D only: NGen generated empty files with 200-byte names
	NameLen  int      `json:"namelen,omitempty"`
	// LongNames: the children are named with names of the maximum length the
	// file system allows (255 bytes; ASCII, 3-byte runes, 254 bytes)
	LongNames bool `json:"longnames,omitempty"`
	// CollideNames: the children get names whose murmur3 hashes agree in their
	// first 40 / 56 bits (a sharded directory holds them 5 / 7 levels down)
	CollideNames bool `json:"collidenames,omitempty"`
}

// fsLongNames: names at the 255-byte limit of the usual file systems.
var fsLongNames = []string{strings.Repeat("x", 255), strings.Repeat("語", 85), strings.Repeat("y", 254), strings.Repeat("é", 127) + "z"}

func (s fsSpec) childName(i int) string {
	if s.CollideNames {
		base := uint64(0x7A3F11C29D000000)
		return gen.NameWithHash([]uint64{base | 0x010203, base | 0xF0F0F0, base | 0x0102FF, base ^ 0x80}[i])
	}
	if s.LongNames {
		return fsLongNames[i]
	}
	return fsNames[i]
}

type fsCase struct {
	Root   fsSpec `json:"root"`
	Reject bool   `json:"reject"`
	// PathForm: how the root path is spelled: "" | trailing-slash | dot-segments | via-dotdot
	PathForm string `json:"path_form,omitempty"`
}

func (s fsSpec) String() string {
	if s.NGen > 0 {
		ch := ""
		if len(s.Children) > 0 {
			parts := make([]string, len(s.Children))
			for i, c := range s.Children {
				parts[i] = c.String()
			}
			ch = fmt.Sprintf(" + (%s) longnames=%v", strings.Join(parts, " "), s.LongNames)
		}
		return fmt.Sprintf("D{%d generated names of %d bytes%s}", s.NGen, s.NameLen, ch)
	}
	if len(s.Children) == 0 {
		return s.Kind
	}
	parts := make([]string, len(s.Children))
	for i, c := range s.Children {
		parts[i] = c.String()
	}
	return s.Kind + "(" + strings.Join(parts, " ") + ")"
}

func (s fsSpec) nodes() int {
	n := 1
	for _, c := range s.Children {
		n += c.nodes()
	}
	return n
}

// names: plain, with a space and a byte that is not valid UTF-8 (Latin-1 é:
// file names are byte strings), valid multi-byte, format verbs, a lone 0xff
var fsNames = []string{"a", "caf\xe9 b", "é", "50%d off %s", "\xff", "0", "-", ".hidden"}
var fsKinds = []string{"E", "F", "Lr", "La", "Ld", "D"}

func fsRank(k string) int {
	for i, x := range fsKinds {
		if x == k {
			return i
		}
	}
	return 99
}

func enumFsTrees(maxNodes int) []fsSpec {
	var trees func(budget int) []fsSpec
	var forests func(budget, minRank, maxCount int) [][]fsSpec
	trees = func(budget int) []fsSpec {
		if budget < 1 {
			return nil
		}
		var out []fsSpec
		for _, k := range fsKinds {
			if k == "D" {
				for _, f := range forests(budget-1, 0, 4) {
					out = append(out, fsSpec{Kind: "D", Children: f})
				}
			} else {
				out = append(out, fsSpec{Kind: k})
			}
		}
		return out
	}
	forests = func(budget, minRank, maxCount int) [][]fsSpec {
		out := [][]fsSpec{nil}
		if budget < 1 || maxCount < 1 {
			return out
		}
		for _, first := range trees(budget) {
			if fsRank(first.Kind) < minRank {
				continue
			}
			for _, rest := range forests(budget-first.nodes(), fsRank(first.Kind), maxCount-1) {
				out = append(out, append([]fsSpec{first}, rest...))
			}
		}
		return out
	}
	return trees(maxNodes)
}

// withSpecial returns copies of t with one extra node of kind k added as a
// child of every directory (one variant per position).
func withSpecial(t fsSpec, k string) []fsSpec {
	var out []fsSpec
	var rec func(cur fsSpec, rebuild func(fsSpec) fsSpec)
	rec = func(cur fsSpec, rebuild func(fsSpec) fsSpec) {
		if cur.Kind != "D" || len(cur.Children) >= len(fsNames) {
			return
		}
		nc := cur
		nc.Children = append(append([]fsSpec{}, cur.Children...), fsSpec{Kind: k})
		out = append(out, rebuild(nc))
		for i, ch := range cur.Children {
			i := i
			rec(ch, func(x fsSpec) fsSpec {
				c2 := cur
				c2.Children = append([]fsSpec{}, cur.Children...)
				c2.Children[i] = x
				return rebuild(c2)
			})
		}
	}
	rec(t, func(x fsSpec) fsSpec { return x })
	return out
}

func scratchBase() string {
	if fi, err := os.Stat("/dev/shm"); err == nil && fi.IsDir() {
		return "/dev/shm"
	}
	return os.TempDir()
}

const multiChunkLen = 256*1024 + 1

// materialise creates the tree at path.
func (s fsSpec) materialise(path string, id *int) error {
	*id++
	switch s.Kind {
	case "D":
		if err := os.Mkdir(path, 0o755); err != nil {
			return err
		}
		if s.NGen > 0 {
			for i := 0; i < s.NGen; i++ {
				name := fmt.Sprintf("%0*d", s.NameLen, i)
				if err := os.WriteFile(filepath.Join(path, name), nil, 0o644); err != nil {
					return err
				}
			}
		}
		for i, c := range s.Children {
			if err := c.materialise(filepath.Join(path, s.childName(i)), id); err != nil {
				return err
			}
		}
		return nil
	case "E":
		return os.WriteFile(path, nil, 0o644)
	case "F":
		return os.WriteFile(path, []byte(fmt.Sprintf("f%04d", *id)), 0o600)
	case "M":
		b := make([]byte, multiChunkLen)
		for i := range b {
			b[i] = byte(i*7 + i/251)
		}
		return os.WriteFile(path, b, 0o644)
	case "Fs":
		// regular file with setuid, setgid and sticky bits: still a regular file
		if err := os.WriteFile(path, []byte("special-bits"), 0o644); err != nil {
			return err
		}
		return os.Chmod(path, 0o755|os.ModeSetuid|os.ModeSetgid|os.ModeSticky)
	case "Fx":
		// write-only / no-permission-bits file is unreadable for others, not for the importer running as owner... keep readable: 0400
		if err := os.WriteFile(path, []byte("read-only"), 0o644); err != nil {
			return err
		}
		return os.Chmod(path, 0o400)
	case "Ds":
		// directory with setgid and sticky bits (shared drop box, /tmp): still a directory
		if err := os.Mkdir(path, 0o755); err != nil {
			return err
		}
		if err := os.WriteFile(filepath.Join(path, "inside"), []byte("in a sticky dir"), 0o644); err != nil {
			return err
		}
		return os.Chmod(path, 0o777|os.ModeSetgid|os.ModeSticky)
	case "Dc":
		// a chain of s.NGen nested directories named "d", a file at the bottom
		// (built with relative operations: the absolute path would exceed PATH_MAX)
		if err := os.Mkdir(path, 0o755); err != nil {
			return err
		}
		cur := path
		for i := 0; i < s.NGen; i++ {
			cur = filepath.Join(cur, "d")
			if err := os.Mkdir(cur, 0o755); err != nil {
				return err
			}
		}
		return os.WriteFile(filepath.Join(cur, "bottom"), []byte("at the bottom"), 0o644)
	case "Dh":
		// directory whose entries share inodes: two names for one regular file in
		// the same directory, a third in a subdirectory, two names for one
		// symlink (a tree of regular files, directories and symlinks like any other)
		if err := os.MkdirAll(filepath.Join(path, "sub"), 0o755); err != nil {
			return err
		}
		if err := os.WriteFile(filepath.Join(path, "original"), []byte("one inode, three names"), 0o644); err != nil {
			return err
		}
		if err := os.Link(filepath.Join(path, "original"), filepath.Join(path, "alias")); err != nil {
			return err
		}
		if err := os.Link(filepath.Join(path, "original"), filepath.Join(path, "sub", "alias-below")); err != nil {
			return err
		}
		if err := os.Symlink("original", filepath.Join(path, "lnk")); err != nil {
			return err
		}
		return os.Link(filepath.Join(path, "lnk"), filepath.Join(path, "lnk-again"))
	case "Z":
		// two identical full chunks (a sparse / zero-filled file)
		return os.WriteFile(path, make([]byte, 2*256*1024), 0o644)
	case "ZA":
		// chunks A B A: the last chunk repeats the first
		b := make([]byte, 3*256*1024)
		for i := 256 * 1024; i < 2*256*1024; i++ {
			b[i] = byte(i*13 + i/255)
		}
		return os.WriteFile(path, b, 0o644)
	case "Lr":
		return os.Symlink("./../a/", path) // not in cleaned form on purpose: the target text is carried verbatim
	case "La":
		return os.Symlink("/etc//hostname", path)
	case "Ld":
		return os.Symlink("does/./not/../exist", path)
	case "LL":
		// long targets: the dag-pb length prefix of the node grows to 2 bytes at 124
		return os.Symlink(strings.Repeat("t/", 62), path) // 124 bytes
	case "LX":
		return os.Symlink("/"+strings.Repeat("long-target/", 170), path) // 2041 bytes
	case "P":
		return syscall.Mkfifo(path, 0o644)
	case "S":
		return syscall.Mknod(path, syscall.S_IFSOCK|0o644, 0)
	case "C":
		// a character device: a clone of /dev/null (1,3) - harmless if a faulty
		// importer opens it
		return syscall.Mknod(path, syscall.S_IFCHR|0o666, 1<<8|3)
	}
	return fmt.Errorf("unknown kind %s", s.Kind)
}

// fsView is a tree read either from disk or from the DAG.
type fsView struct {
	Kind     string // dir | file | symlink
	Content  []byte // file bytes or symlink target
	Children map[string]*fsView
}

func readDisk(path string) (*fsView, error) {
	fi, err := os.Lstat(path)
	if err != nil {
		return nil, err
	}
	switch {
	case fi.Mode()&os.ModeSymlink != 0:
		t, err := os.Readlink(path)
		return &fsView{Kind: "symlink", Content: []byte(t)}, err
	case fi.IsDir():
		v := &fsView{Kind: "dir", Children: map[string]*fsView{}}
		ents, err := os.ReadDir(path)
		if err != nil {
			return nil, err
		}
		for _, e := range ents {
			c, err := readDisk(filepath.Join(path, e.Name()))
			if err != nil {
				return nil, err
			}
			v.Children[e.Name()] = c
		}
		return v, nil
	case fi.Mode().IsRegular():
		b, err := os.ReadFile(path)
		return &fsView{Kind: "file", Content: b}, err
	}
	return nil, fmt.Errorf("special file %s", path)
}

// readDag walks the imported DAG through Reify; symlink nodes are decoded by
// the model.
func readDag(s *store.Store, ls *ipld.LinkSystem, c cid.Cid, depth int) (*fsView, error) {
	if depth > 4096 {
		return nil, fmt.Errorf("too deep")
	}
	if blk, err := model.Load(s, c); err == nil && blk.FS != nil && blk.FS.GetType() == pb.Data_Symlink {
		if len(blk.PB.Links) != 0 {
			return nil, fmt.Errorf("symlink node with links")
		}
		return &fsView{Kind: "symlink", Content: blk.FS.GetData()}, nil
	}
	rn, err := loadRoot(ls, c)
	if err != nil {
		return nil, err
	}
	n, err := openVia("Reify", ls, rn)
	if err != nil {
		return nil, err
	}
	switch n.Kind() {
	case datamodel.Kind_Bytes:
		b, err := n.AsBytes()
		return &fsView{Kind: "file", Content: b}, err
	case datamodel.Kind_Map:
		v := &fsView{Kind: "dir", Children: map[string]*fsView{}}
		pairs, errs, term := iterateMap(n, 1<<20)
		if !term || len(errs) > 0 {
			return nil, fmt.Errorf("directory iteration failed: %v", errs)
		}
		for _, p := range pairs {
			if _, dup := v.Children[p.K]; dup {
				return nil, fmt.Errorf("duplicate entry %q", p.K)
			}
			cc, err := cid.Decode(p.V)
			if err != nil {
				return nil, err
			}
			ch, err := readDag(s, ls, cc, depth+1)
			if err != nil {
				return nil, fmt.Errorf("%q: %w", p.K, err)
			}
			v.Children[p.K] = ch
		}
		return v, nil
	}
	return nil, fmt.Errorf("unexpected kind %v", n.Kind())
}

func diffViews(path string, disk, dag *fsView) string {
	if disk.Kind != dag.Kind {
		return fmt.Sprintf("%s: on disk %s, in the DAG %s", path, disk.Kind, dag.Kind)
	}
	if disk.Kind != "dir" {
		if !bytes.Equal(disk.Content, dag.Content) {
			return fmt.Sprintf("%s (%s): on disk %s, in the DAG %s", path, disk.Kind, clip(disk.Content, 24), clip(dag.Content, 24))
		}
		return ""
	}
	var names []string
	for n := range disk.Children {
		names = append(names, n)
	}
	sort.Strings(names)
	for _, n := range names {
		d, ok := dag.Children[n]
		if !ok {
			return fmt.Sprintf("%s: entry %q is on disk but not in the DAG (DAG lists %d, disk %d)", path, n, len(dag.Children), len(disk.Children))
		}
		if x := diffViews(path+"/"+n, disk.Children[n], d); x != "" {
			return x
		}
	}
	for n := range dag.Children {
		if _, ok := disk.Children[n]; !ok {
			return fmt.Sprintf("%s: the DAG lists %q which is not on disk", path, n)
		}
	}
	return ""
}

func (c fsCase) run(base string, idx int, viol func(sig, detail string)) {
	dir, err := os.MkdirTemp(base, "verif-c18-")
	if err != nil {
		viol("harness-scratch", err.Error())
		return
	}
	defer os.RemoveAll(dir)
	root := filepath.Join(dir, "root")
	id := idx * 100
	if c.Root.Kind == "Cdev" {
		// the system's own /dev/null as the import root (needs no privilege)
		root = "/dev/null"
	} else if err := c.Root.materialise(root, &id); err != nil {
		viol("harness-materialise", fmt.Sprintf("%s: %v", c.Root, err))
		return
	}
	s := store.New()
	var l ipld.Link
	var berr error
	// the root path as given, with a trailing slash, or through "." segments
	arg := root
	switch c.PathForm {
	case "trailing-slash":
		arg = root + "/"
	case "dot-segments":
		arg = filepath.Dir(root) + "/./" + filepath.Base(root) + "/."
	case "via-dotdot":
		arg = root + "/../" + filepath.Base(root)
	}
	if p, pv := core.Guard(func() { l, _, berr = builder.BuildUnixFSRecursive(arg, s.LinkSystem()) }); p {
		viol("panic import", fmt.Sprintf("%s: %v", c.Root, pv))
		return
	}
	if c.Reject {
		if berr == nil {
			viol("special-file-accepted", fmt.Sprintf("%s: import returned link %v and no error", c.Root, l))
		} else if l != nil {
			viol("link-with-error", fmt.Sprintf("%s: link %v with error %v", c.Root, l, berr))
		}
		return
	}
	if berr != nil || l == nil {
		viol("import-error", fmt.Sprintf("%s: link=%v err=%v", c.Root, l, berr))
		return
	}
	disk, err := readDisk(root)
	if err != nil {
		viol("harness-readdisk", err.Error())
		return
	}
	dag, err := readDag(s, lsFor(s), l.(cidlink.Link).Cid, 0)
	if err != nil {
		viol("dag-unreadable", fmt.Sprintf("%s: %v", c.Root, err))
		return
	}
	if d := diffViews("", disk, dag); d != "" {
		viol("tree-differs "+kindOfDiff(d), fmt.Sprintf("%s: %s", c.Root, d))
	}
}

func kindOfDiff(d string) string {
	switch {
	case strings.Contains(d, "symlink"):
		return "symlink"
	case strings.Contains(d, "entry") || strings.Contains(d, "lists"):
		return "entries"
	}
	return "content"
}

func runC18(r *core.Run) {
	r.Rule("bounded-exhaustive: every rooted tree with <= 5 (quick) / 6 (thorough) nodes over {directory incl. empty, empty file, 5-byte file, relative/absolute/dangling symlink} with names {a,'b c','é','0'} materialised on a scratch directory, imported with BuildUnixFSRecursive and read back through Reify (symlink nodes decoded by the model) vs an independent Lstat/ReadDir/Readlink/ReadFile walk; fixed large cases: directory estimate just below/above the auto-shard threshold, multi-chunk file, file and symlink roots; rejection: every tree (<= 4/5 nodes) with a FIFO or unix socket (and, where mknod is permitted, a character device; /dev/null as root) added at every directory position must give an error and no link")
	// an import needs a handful of descriptors at a time, however many entries a
	// directory has: the whole check runs with a soft limit of 512 open files
	// (the fixtures include directories of 1030..1111 files), so that an importer
	// that keeps every file of a directory open fails here instead of only at
	// the limit of the machine it happens to run on
	var lim syscall.Rlimit
	if err := syscall.Getrlimit(syscall.RLIMIT_NOFILE, &lim); err == nil && lim.Cur > 512 {
		old := lim
		lim.Cur = 512
		if syscall.Setrlimit(syscall.RLIMIT_NOFILE, &lim) == nil {
			defer syscall.Setrlimit(syscall.RLIMIT_NOFILE, &old)
			r.Assume("soft RLIMIT_NOFILE lowered to 512 for the duration of the check")
		}
	}
	max := 5
	if !r.Quick() {
		max = 6
	}
	var cases []fsCase
	trees := enumFsTrees(max)
	for _, t := range trees {
		cases = append(cases, fsCase{Root: t})
	}
	for _, t := range enumFsTrees(max - 1) {
		for _, k := range []string{"P", "S"} {
			for _, v := range withSpecial(t, k) {
				cases = append(cases, fsCase{Root: v, Reject: true})
			}
		}
	}
	cases = append(cases, fsCase{Root: fsSpec{Kind: "P"}, Reject: true}, fsCase{Root: fsSpec{Kind: "S"}, Reject: true})
	// device nodes: /dev/null itself as the root; where the sandbox permits
	// mknod, a character device at every directory position of the smaller trees
	if fi, err := os.Lstat("/dev/null"); err == nil && fi.Mode()&os.ModeCharDevice != 0 {
		cases = append(cases, fsCase{Root: fsSpec{Kind: "Cdev"}, Reject: true})
	} else {
		r.Cap("no character device /dev/null here: device-root case skipped")
	}
	if probe := filepath.Join(scratchBase(), fmt.Sprintf("verif-c18-mknod-%d", os.Getpid())); syscall.Mknod(probe, syscall.S_IFCHR|0o666, 1<<8|3) == nil {
		os.Remove(probe)
		cases = append(cases, fsCase{Root: fsSpec{Kind: "C"}, Reject: true})
		for _, t := range enumFsTrees(max - 2) {
			for _, v := range withSpecial(t, "C") {
				cases = append(cases, fsCase{Root: v, Reject: true})
			}
		}
		r.Set("device_nodes", "mknod permitted: character devices inside trees")
	} else {
		r.Set("device_nodes", "mknod not permitted: only /dev/null as root")
	}
	// estimate = n*(namelen+36): 1110*236 = 261960 (plain), 1111*236 = 262196 (sharded)
	cases = append(cases,
		fsCase{Root: fsSpec{Kind: "D", NGen: 1110, NameLen: 200}},
		fsCase{Root: fsSpec{Kind: "D", NGen: 1111, NameLen: 200}},
		fsCase{Root: fsSpec{Kind: "D", NGen: 1111, NameLen: 200, Children: []fsSpec{{Kind: "D", Children: []fsSpec{{Kind: "F"}, {Kind: "Lr"}}}, {Kind: "M"}}}},
		fsCase{Root: fsSpec{Kind: "M"}},
		// entry counts at and around the batch sizes a directory listing might be
		// read in (512, 1024, 2048), at the root and nested
		fsCase{Root: fsSpec{Kind: "D", NGen: 511, NameLen: 6}}, fsCase{Root: fsSpec{Kind: "D", NGen: 512, NameLen: 6}},
		fsCase{Root: fsSpec{Kind: "D", NGen: 1023, NameLen: 6}}, fsCase{Root: fsSpec{Kind: "D", NGen: 1024, NameLen: 6}}, fsCase{Root: fsSpec{Kind: "D", NGen: 1025, NameLen: 6}},
		fsCase{Root: fsSpec{Kind: "D", NGen: 2048, NameLen: 6}}, fsCase{Root: fsSpec{Kind: "D", NGen: 4096, NameLen: 6}},
		fsCase{Root: fsSpec{Kind: "D", Children: []fsSpec{{Kind: "F"}, {Kind: "D", NGen: 1024, NameLen: 6}}}},
		// names at the 255-byte limit, in a plain and in an auto-sharded directory
		fsCase{Root: fsSpec{Kind: "D", LongNames: true, Children: []fsSpec{{Kind: "F"}, {Kind: "E"}, {Kind: "F"}, {Kind: "Lr"}}}},
		fsCase{Root: fsSpec{Kind: "D", NGen: 1030, NameLen: 255, LongNames: true, Children: []fsSpec{{Kind: "F"}, {Kind: "F"}, {Kind: "E"}, {Kind: "F"}}}},
		fsCase{Root: fsSpec{Kind: "D", NGen: 1100, NameLen: 254, LongNames: true, Children: []fsSpec{{Kind: "F"}, {Kind: "F"}}}},
		// entries with special permission bits are ordinary files and directories
		fsCase{Root: fsSpec{Kind: "Fs"}}, fsCase{Root: fsSpec{Kind: "Ds"}},
		fsCase{Root: fsSpec{Kind: "D", Children: []fsSpec{{Kind: "Fs"}, {Kind: "Ds"}, {Kind: "Fx"}, {Kind: "D", Children: []fsSpec{{Kind: "Ds"}}}}}},
		// '%' in directory names at every depth (path construction must not treat
		// names as format strings)
		fsCase{Root: fsSpec{Kind: "D", Children: []fsSpec{{Kind: "F"}, {Kind: "F"}, {Kind: "F"}, {Kind: "D", Children: []fsSpec{{Kind: "F"}, {Kind: "F"}, {Kind: "F"}, {Kind: "D", Children: []fsSpec{{Kind: "F"}}}}}}}},
		// every name of the list at once, as files and as directories (numeric,
		// dash and dot-file names only occur here: the enumerated trees are too
		// small to reach them)
		fsCase{Root: fsSpec{Kind: "D", Children: []fsSpec{{Kind: "F"}, {Kind: "F"}, {Kind: "F"}, {Kind: "F"}, {Kind: "F"}, {Kind: "F"}, {Kind: "F"}, {Kind: "F"}}}},
		fsCase{Root: fsSpec{Kind: "D", Children: []fsSpec{{Kind: "E"}, {Kind: "E"}, {Kind: "E"}, {Kind: "E"}, {Kind: "E"}, {Kind: "D", Children: []fsSpec{{Kind: "F"}}}, {Kind: "D", Children: []fsSpec{{Kind: "Lr"}}}, {Kind: "D", Children: []fsSpec{{Kind: "F"}, {Kind: "E"}}}}}},
		// deep trees: a chain of 70 and of 300 nested directories with a file at
		// the bottom (file systems allow thousands of levels of short names)
		fsCase{Root: fsSpec{Kind: "Dc", NGen: 70}}, fsCase{Root: fsSpec{Kind: "Dc", NGen: 300}},
		// hard links: several names for one inode
		fsCase{Root: fsSpec{Kind: "Dh"}},
		fsCase{Root: fsSpec{Kind: "D", Children: []fsSpec{{Kind: "F"}, {Kind: "Dh"}, {Kind: "D", Children: []fsSpec{{Kind: "Dh"}}}}}},
		// files whose chunks repeat
		fsCase{Root: fsSpec{Kind: "Z"}}, fsCase{Root: fsSpec{Kind: "ZA"}},
		fsCase{Root: fsSpec{Kind: "D", Children: []fsSpec{{Kind: "Z"}, {Kind: "F"}, {Kind: "ZA"}}}},
		// names whose hashes collide deep into the HAMT, in an auto-sharded directory
		fsCase{Root: fsSpec{Kind: "D", NGen: 1111, NameLen: 200, CollideNames: true, Children: []fsSpec{{Kind: "F"}, {Kind: "F"}, {Kind: "F"}, {Kind: "E"}}}},
		// long symlink targets
		fsCase{Root: fsSpec{Kind: "LL"}}, fsCase{Root: fsSpec{Kind: "LX"}},
		fsCase{Root: fsSpec{Kind: "D", Children: []fsSpec{{Kind: "LL"}, {Kind: "F"}, {Kind: "LX"}, {Kind: "D", Children: []fsSpec{{Kind: "LL"}}}}}},
		fsCase{Root: fsSpec{Kind: "D", Children: []fsSpec{{Kind: "M"}, {Kind: "E"}}}},
	)
	// the same trees through other spellings of the root path
	for i, t := range trees {
		if i%7 == 0 && t.Kind == "D" {
			for _, pf := range []string{"trailing-slash", "dot-segments", "via-dotdot"} {
				cases = append(cases, fsCase{Root: t, PathForm: pf})
			}
		}
	}
	base := scratchBase()
	r.Set("scratch", base)
	r.Set("trees", len(trees))
	core.ParallelFor(len(cases), workers, func(i int) {
		c := cases[i]
		r.Evaluations.Add(1)
		r.States.Add(1)
		r.Transitions.Add(int64(c.Root.nodes()))
		r.Distinct(fmt.Sprintf("%v/%s/%s", c.Reject, c.Root, c.PathForm))
		if i%401 == 0 {
			r.Sample(map[string]any{"tree": c.Root.String(), "reject": c.Reject})
		}
		c.run(base, i, func(sig, detail string) { r.Violate(sig, detail, c) })
	})
}
