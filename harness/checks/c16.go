package checks

import (
	"bytes"
	"encoding/json"
	"fmt"
	"io"
	"os"
	"path/filepath"
	"sync"

	"github.com/ipfs/go-cid"
	"github.com/ipfs/go-unixfsnode/data/builder"
	quickbuilder "github.com/ipfs/go-unixfsnode/data/builder/quick"
	"github.com/ipld/go-ipld-prime"
	cidlink "github.com/ipld/go-ipld-prime/linking/cid"

	"verif/harness/core"
	"verif/harness/gen"
	"verif/harness/model"
	"verif/harness/store"
	"verif/harness/xplore"
)

func init() {
	Registry["C16"] = runC16
	Replayers["C16"] = func(raw []byte) string {
		var c c16Replay
		if err := json.Unmarshal(raw, &c); err != nil {
			return "bad case: " + err.Error()
		}
		defer cleanupFixture()
		var out []string
		xplore.RunOne(c.Choices, nil, 0, func(x *xplore.Ctx) string {
			return c.Case.body(x, func(sig, detail string) { out = append(out, sig+" :: "+detail) })
		})
		return joinLines(out)
	}
}

type c16Case struct {
	Kind   string   `json:"kind"` // file | symlink | plain | sharded | recursive | quick
	File   fileCase `json:"file,omitempty"`
	Fanout int      `json:"fanout,omitempty"`
	Names  []string `json:"names,omitempty"`
	// SplitRead: the link system reads from ANOTHER store, which already holds
	// every block of this build (a re-export of existing content into a fresh
	// store); writes go to the store under test
	SplitRead bool `json:"split_read,omitempty"`
}

func (c c16Case) String() string {
	sr := ""
	if c.SplitRead {
		sr = " split-read-store"
	}
	if c.Kind == "file" {
		return "file " + c.File.String() + sr
	}
	return fmt.Sprintf("%s F=%d %q%s", c.Kind, c.Fanout, trimNames(c.Names), sr)
}

type c16Replay struct {
	Case    c16Case `json:"case"`
	Choices []int   `json:"choices"`
}

// build runs the builder over ls; entries' leaves are pre-stored.
func (c c16Case) build(s *store.Store, ls *ipld.LinkSystem) (ipld.Link, uint64, error) {
	switch c.Kind {
	case "file":
		var l ipld.Link
		var sz uint64
		var err error
		gen.WithWidth(c.File.W, func() {
			l, sz, err = builder.BuildUnixFSFile(bytes.NewReader(c.File.content()), c.File.Chunker, ls)
		})
		return l, sz, err
	case "symlink":
		return builder.BuildUnixFSSymlink("../some/target", ls)
	case "auto-large":
		// a directory whose size estimate is just above the auto-shard threshold,
		// through the plain-directory entry point (which then shards it)
		links, err := gen.PBLinks(gen.Leaves(s, thresholdNames(262145)))
		if err != nil {
			return nil, 0, err
		}
		return builder.BuildUnixFSDirectory(links, ls)
	case "plain", "sharded":
		links, err := gen.PBLinks(gen.Leaves(s, c.Names))
		if err != nil {
			return nil, 0, err
		}
		if c.Kind == "sharded" {
			return builder.BuildUnixFSShardedDirectory(c.Fanout, 0x22, links, ls)
		}
		return builder.BuildUnixFSDirectory(links, ls)
	case "recursive":
		if len(c.Names) == 1 {
			// the import starts at a regular file / empty file / symlink
			return builder.BuildUnixFSRecursive(filepath.Join(filepath.Dir(recursiveFixture()), "roots", c.Names[0]), ls)
		}
		return builder.BuildUnixFSRecursive(recursiveFixture(), ls)
	case "quick":
		var l ipld.Link
		var sz int64
		err := quickbuilder.Store(ls, func(b *quickbuilder.Builder) error {
			f1 := b.NewBytesFile([]byte("one"))
			f2 := b.NewBytesFile(bytes.Repeat([]byte("two"), 3))
			inner := b.NewMapDirectory(map[string]quickbuilder.Node{"f2": f2, "f1again": f1})
			top := b.NewMapDirectory(map[string]quickbuilder.Node{"a": f1, "d": inner, "z": f2})
			l = top.Link()
			sz, _ = top.Size()
			return nil
		})
		return l, uint64(sz), err
	}
	return nil, 0, fmt.Errorf("unknown kind")
}

var c16FinalMu sync.Mutex
var c16Final = map[string]map[string]bool{}

// finalSet: the blocks a fault-free build writes (by multihash).
func (c c16Case) finalSet() map[string]bool {
	c16FinalMu.Lock()
	defer c16FinalMu.Unlock()
	if v, ok := c16Final[c.String()]; ok {
		return v
	}
	s := store.New()
	c.build(s, s.LinkSystem())
	out := map[string]bool{}
	for _, x := range s.Commits() {
		out[string(x.Hash())] = true
	}
	c16Final[c.String()] = out
	return out
}

// body: one build under write-side fault choices and map-order choices.
func (c c16Case) body(x *xplore.Ctx, viol func(sig, detail string)) string {
	final := c.finalSet()
	s := store.New()
	faults := 0
	fault := func(what string) error {
		// the failure is a generic error, or one whose identity a builder might
		// mistake for "end of input": bare / wrapped io.EOF, io.ErrUnexpectedEOF
		switch x.Choose(5, what) {
		case 1:
			faults++
			return fmt.Errorf("%w (%s)", store.ErrWrite, what)
		case 2:
			faults++
			return io.EOF
		case 3:
			faults++
			return fmt.Errorf("verif: storage said: %w", io.EOF)
		case 4:
			faults++
			return io.ErrUnexpectedEOF
		}
		return nil
	}
	s.OnOpen = func(int) error { return fault("write-open") }
	s.OnWrite = func(int) error { return fault("write") }
	s.OnCommit = func(int, cid.Cid) error { return fault("commit") }
	// crash point after every commit: no builder-written block may dangle
	s.AfterCommit = func(cc cid.Cid) {
		raw, _ := s.Raw(cc)
		if cc.Prefix().Codec != cid.DagProtobuf {
			return
		}
		n, err := model.DecodePB(raw)
		if err != nil {
			return
		}
		for i, l := range n.Links {
			if final[string(l.Cid.Hash())] && !s.Has(l.Cid) {
				viol("parent-before-child "+c.Kind, fmt.Sprintf("%s: block %s was committed while its link %d (%q -> %s), a block of the same build, is not stored yet (commit #%d)", c, short(cc), i, l.Name, short(l.Cid), len(s.Commits())))
			}
		}
	}
	var l ipld.Link
	var err error
	ls := s.LinkSystem()
	if c.SplitRead {
		other := store.New()
		c.build(other, other.LinkSystem())
		ls.StorageReadOpener = other.LinkSystem().StorageReadOpener
	}
	run := func() {
		if p, pv := core.Guard(func() { l, _, err = c.build(s, ls) }); p {
			if _, ok := pv.(xplore.Truncated); ok {
				panic(pv)
			}
			if _, ok := pv.(xplore.Diverged); ok {
				panic(pv)
			}
			if c.Kind == "quick" && faults > 0 {
				// the quick builder's way of reporting a failed write (its API has
				// no error results): the session must not end as if nothing happened
				err = fmt.Errorf("quick builder panicked: %v", pv)
			} else {
				viol("panic build "+c.Kind, fmt.Sprintf("%s: %v", c, pv))
				err = fmt.Errorf("panic")
			}
		}
	}
	if c.Kind == "sharded" || c.Kind == "quick" || c.Kind == "plain" || (c.Kind == "auto-large" && false) {
		withMapOrder(x, nil, run)
	} else {
		run()
	}
	if faults > 0 {
		if err == nil {
			viol("write-error-swallowed "+c.Kind, fmt.Sprintf("%s: %d injected write failure(s) (choices %v) but the build returned no error (link %v)", c, faults, x.Choices, l))
		}
		if l != nil {
			viol("link-with-error "+c.Kind, fmt.Sprintf("%s: build returned link %v together with error %v", c, l, err))
		}
	} else if err != nil {
		viol("error-without-fault "+c.Kind, fmt.Sprintf("%s: %v", c, err))
	}
	if err == nil && l != nil {
		// everything reachable through build-produced links is committed
		var missing []string
		seen := map[string]bool{}
		var rec func(cc cid.Cid)
		rec = func(cc cid.Cid) {
			if seen[cc.KeyString()] {
				return
			}
			seen[cc.KeyString()] = true
			raw, ok := s.Raw(cc)
			if !ok {
				missing = append(missing, short(cc))
				return
			}
			if cc.Prefix().Codec == cid.DagProtobuf {
				if n, err := model.DecodePB(raw); err == nil {
					for _, lk := range n.Links {
						rec(lk.Cid)
					}
				}
			}
		}
		rec(l.(cidlink.Link).Cid)
		if len(missing) > 0 {
			viol("link-returned-before-dag-committed "+c.Kind, fmt.Sprintf("%s: returned link %v but blocks %v are not stored", c, l, missing))
		}
	}
	return fmt.Sprintf("faults=%d err=%v link=%v", faults, err != nil, l != nil)
}

func runC16(r *core.Run) {
	defer cleanupFixture()
	r.Rule("stateless DFS over choice sequences: every write-open, Write and commit of every build is a choice point {succeed, fail with a generic error, bare io.EOF, wrapped io.EOF, io.ErrUnexpectedEOF} (deviation bound 2: every single failure position and every pair), and every map range in the builders is a choice point over iteration orders (instrumented overlay); after EVERY commit (= every crash point of the write sequence) the store is checked for builder-written blocks with dangling links into the same build; oracle: failure => error and nil link; nil error => whole DAG committed. Builds: files (w in {2,3}, 0..10 chunks), symlink, plain and sharded directories (colliding names, F=8), recursive import of an on-disk tree, quick builder (ordering only)")
	if !overlayActive {
		r.InternalError("C16 needs the instrumented overlay build (run through run.sh)")
		return
	}
	r.Set("instrumentation", os.Getenv("VERIF_INSTR"))
	noteDegraded(r)
	var cases []c16Case
	for _, w := range []int{2, 3} {
		for n := 0; n <= 10; n++ {
			cases = append(cases, c16Case{Kind: "file", File: fileCase{Writer: "ours", W: w, Chunker: "size-3", L: 3*n - n%2, K: 3, Pattern: []string{"distinct", "equal"}[n%2]}})
		}
	}
	cases[0].File.L = 0
	cases = append(cases, c16Case{Kind: "symlink"})
	col := gen.Colliders("k", 12, 3)
	u := []string{col[0], col[1], col[2], gen.CollidersWith("m", col[0], 6, 2)[0], gen.CollidersWith("m", col[0], 6, 2)[1], "b c", "é", "0"}
	masks := []int{1, 3, 7, 15, 31, 63, 127, 255, 0b10101010, 0b01010111}
	if !r.Quick() {
		masks = nil
		for m := 1; m < 256; m++ {
			masks = append(masks, m)
		}
	}
	for _, m := range masks {
		cases = append(cases, c16Case{Kind: "sharded", Fanout: 8, Names: gen.SubsetOf(u, m)})
		if m%2 == 1 {
			cases = append(cases, c16Case{Kind: "plain", Names: gen.SubsetOf(u, m)})
		}
	}
	cases = append(cases,
		c16Case{Kind: "file", File: fileCase{Writer: "ours", W: 2, Chunker: "size-3", L: 8, K: 3, Pattern: "distinct"}, SplitRead: true},
		c16Case{Kind: "symlink", SplitRead: true},
		c16Case{Kind: "plain", Names: u[:3], SplitRead: true},
		c16Case{Kind: "sharded", Fanout: 8, Names: u[:4], SplitRead: true})
	cases = append(cases, c16Case{Kind: "sharded", Fanout: 256, Names: u}, c16Case{Kind: "recursive"}, c16Case{Kind: "quick"}, c16Case{Kind: "auto-large"},
		c16Case{Kind: "recursive", Names: []string{"two-chunks.bin"}}, c16Case{Kind: "recursive", Names: []string{"small.txt"}},
		c16Case{Kind: "recursive", Names: []string{"empty"}}, c16Case{Kind: "recursive", Names: []string{"link"}})
	var execs int64
	maxDepth := 0
	for i, c := range cases {
		c := c
		bound, horizon := 2, 3000
		if c.Kind == "auto-large" {
			bound, horizon = 1, 20000 // hundreds of shard blocks: every single failure position
		}
		ex := &xplore.Explorer{Bound: bound, Horizon: horizon, Replay: 2, MaxExecs: 300000, OnDiverge: func(ch []int, a, b string) {
			r.InternalError(fmt.Sprintf("nondeterministic replay %s %v: %q vs %q", c, ch, a, b))
		}}
		outcomes := map[string]bool{}
		ex.Explore(func(x *xplore.Ctx) string {
			return c.body(x, func(sig, detail string) {
				r.Violate(sig, detail, c16Replay{c, append([]int{}, x.Choices...)})
			})
		}, func(res xplore.Result) {
			if res.Panic != nil {
				r.Violate("panic "+c.Kind, fmt.Sprintf("%s %v: %v", c, res.Choices, res.Panic), c16Replay{c, res.Choices})
			}
			outcomes[res.Obs] = true
			r.Distinct(c.String() + res.Obs)
		})
		execs += int64(ex.Stats.Executions)
		if ex.Stats.MaxDepth > maxDepth {
			maxDepth = ex.Stats.MaxDepth
		}
		if ex.Stats.Capped {
			r.Cap("execution cap hit for " + c.String())
		}
		r.States.Add(1)
		r.Transitions.Add(int64(ex.Stats.ChoicePoints))
		if i%9 == 0 {
			r.Sample(map[string]any{"build": c.String(), "executions": ex.Stats.Executions, "outcomes": sortedKeys(outcomes)})
		}
	}
	r.Evaluations.Add(execs)
	r.Traces.Add(execs)
	r.Set("executions", execs)
	r.Set("max_choice_depth", maxDepth)
	r.Set("builds", len(cases))
	r.Set("deviation_bound_completed", 2)
	r.Set("deviation_bound_completed_auto_large", 1)
}
