package checks

import (
	"bytes"
	"fmt"
	"io"
	"os"

	"github.com/ipfs/go-cid"

	"verif/harness/gen"
	"verif/harness/store"
)

// fileCase identifies one file DAG: writer, width, chunker and content.
type fileCase struct {
	Writer  string `json:"writer"` // "ours" or a RefMode string
	W       int    `json:"w"`
	Chunker string `json:"chunker"`
	L       int    `json:"len"`
	K       int    `json:"pattern_chunk"`
	Pattern string `json:"pattern"`
	// Source (this builder only): how the bytes are handed over. "" = a
	// bytes.Reader at the start of the content; "positioned" = a bytes.Reader
	// over a longer buffer, positioned at the content after a prefix that is
	// not part of the file; "section" = an io.SectionReader positioned after
	// an already consumed header; "buffer" = a bytes.Buffer (Len(), no Seek);
	// "opaque" = a reader with no other method; "file" = an *os.File positioned
	// after a consumed header; "dataerr" = a reader that returns its last bytes
	// together with io.EOF; "onebyte" = the same one byte per Read; "zerofirst" =
	// a reader whose first Read returns (0, nil)
	Source string `json:"source,omitempty"`
}

func (c fileCase) String() string {
	if c.Source != "" {
		return fmt.Sprintf("%s w=%d %s L=%d %s source=%s", c.Writer, c.W, c.Chunker, c.L, c.Pattern, c.Source)
	}
	return fmt.Sprintf("%s w=%d %s L=%d %s", c.Writer, c.W, c.Chunker, c.L, c.Pattern)
}

var fileSources = []string{"positioned", "section", "buffer", "opaque", "dataerr", "zerofirst", "onebyte", "file"}

// dataErrReader returns the final bytes together with io.EOF (as archive/tar
// entries and known-length HTTP bodies do): legal for an io.Reader.
type dataErrReader struct {
	data []byte
	step int // bytes per Read; 0 = everything at once
}

func (d *dataErrReader) Read(p []byte) (int, error) {
	n := len(p)
	if d.step > 0 && n > d.step {
		n = d.step
	}
	n = copy(p[:n], d.data)
	d.data = d.data[n:]
	if len(d.data) == 0 {
		return n, io.EOF
	}
	return n, nil
}

// zeroFirstReader answers its first Read with (0, nil) (discouraged, legal).
type zeroFirstReader struct {
	r     io.Reader
	asked bool
}

func (z *zeroFirstReader) Read(p []byte) (int, error) {
	if !z.asked {
		z.asked = true
		return 0, nil
	}
	return z.r.Read(p)
}

type opaqueReader struct{ r io.Reader }

func (o opaqueReader) Read(p []byte) (int, error) { return o.r.Read(p) }

// source hands the content over the way c.Source says; cleanup is to be called
// after the build.
func (c fileCase) source(content []byte) (src io.Reader, cleanup func()) {
	cleanup = func() {}
	header := []byte("preceding record, already consumed: not part of the file")
	switch c.Source {
	case "positioned":
		br := bytes.NewReader(append(append([]byte{}, header...), content...))
		br.Seek(int64(len(header)), io.SeekStart)
		return br, cleanup
	case "section":
		sr := io.NewSectionReader(bytes.NewReader(append(append([]byte("xx"), header...), content...)), 2, int64(len(header)+len(content)))
		io.CopyN(io.Discard, sr, int64(len(header)))
		return sr, cleanup
	case "buffer":
		return bytes.NewBuffer(append([]byte{}, content...)), cleanup
	case "opaque":
		return opaqueReader{bytes.NewReader(content)}, cleanup
	case "dataerr":
		return &dataErrReader{data: append([]byte{}, content...)}, cleanup
	case "onebyte":
		return &dataErrReader{data: append([]byte{}, content...), step: 1}, cleanup
	case "zerofirst":
		return &zeroFirstReader{r: bytes.NewReader(content)}, cleanup
	case "file":
		f, err := os.CreateTemp(scratchDir(), "verif-src-*")
		if err != nil {
			return bytes.NewReader(content), cleanup
		}
		f.Write(header)
		f.Write(content)
		f.Seek(int64(len(header)), io.SeekStart)
		return f, func() { f.Close(); os.Remove(f.Name()) }
	}
	return bytes.NewReader(content), cleanup
}

// scratchDir: memory-backed when available.
func scratchDir() string {
	if st, err := os.Stat("/dev/shm"); err == nil && st.IsDir() {
		return "/dev/shm"
	}
	return ""
}

func (c fileCase) content() []byte { return gen.Content(c.L, c.K, c.Pattern) }

func refModeOf(s string) (gen.RefMode, bool) {
	for _, m := range gen.AllRefModes() {
		if m.String() == s {
			return m, true
		}
	}
	return gen.RefMode{}, false
}

// build writes the DAG into a fresh store.
func (c fileCase) build() (*store.Store, cid.Cid, uint64, error) {
	s := store.New()
	content := c.content()
	if c.Writer == "ours" {
		var root cid.Cid
		var sz uint64
		var err error
		src, cleanup := c.source(content)
		defer cleanup()
		gen.WithWidth(c.W, func() {
			root, sz, err = gen.BuildOurs(s, src, c.Chunker)
		})
		return s, root, sz, err
	}
	m, ok := refModeOf(c.Writer)
	if !ok {
		return nil, cid.Undef, 0, fmt.Errorf("unknown writer %q", c.Writer)
	}
	root, sz, err := gen.BuildRef(s, content, c.Chunker, c.W, m)
	return s, root, sz, err
}

// shapeCounts lists every chunk count 0..w^3+w+1 (all balanced shapes up to a
// 4-level tree including the w^k boundaries ±1).
func shapeCounts(w int) []int {
	var out []int
	for n := 0; n <= w*w*w+w+1; n++ {
		out = append(out, n)
	}
	return out
}

// lengthsFor returns the content lengths for n chunks of size k: last chunk
// full, one byte short, one byte only.
func lengthsFor(n, k int) []int {
	if n == 0 {
		return []int{0}
	}
	if k == 1 {
		return []int{n}
	}
	full := n * k
	out := []int{full, full - 1}
	if k > 2 {
		out = append(out, (n-1)*k+1)
	}
	return out
}

// smallFileFamily enumerates the small-scope family shared by the file checks.
func smallFileFamily(widths []int, chunkSizes []int, patterns []string, writers []string) []fileCase {
	var out []fileCase
	for _, w := range widths {
		for _, k := range chunkSizes {
			for _, n := range shapeCounts(w) {
				for _, L := range lengthsFor(n, k) {
					for _, p := range patterns {
						if p == "equal" && n < 2 {
							continue
						}
						for _, wr := range writers {
							out = append(out, fileCase{Writer: wr, W: w, Chunker: fmt.Sprintf("size-%d", k), L: L, K: k, Pattern: p})
						}
					}
				}
			}
		}
	}
	return out
}

func allWriters() []string {
	out := []string{"ours"}
	for _, m := range gen.AllRefModes() {
		out = append(out, m.String())
	}
	return out
}

// groupByWidth orders cases so that cases of the same width are contiguous
// (the library's width is a process global).
func groupByWidth(cs []fileCase) map[int][]fileCase {
	out := map[int][]fileCase{}
	for _, c := range cs {
		out[c.W] = append(out[c.W], c)
	}
	return out
}
