package checks

import (
	"bytes"
	"fmt"

	"github.com/ipfs/go-cid"

	"verif/harness/gen"
	"verif/harness/store"
)

// fileCase identifies one file DAG: writer, width, chunker and content.
type fileCase struct {
	Writer  string `json:"writer"` // "ours" or a RefMode string
	W       int    `json:"w"`
	Chunker string `json:"chunker"`
	L       int    `json:"len"`
	K       int    `json:"pattern_chunk"`
	Pattern string `json:"pattern"`
}

func (c fileCase) String() string {
	return fmt.Sprintf("%s w=%d %s L=%d %s", c.Writer, c.W, c.Chunker, c.L, c.Pattern)
}

func (c fileCase) content() []byte { return gen.Content(c.L, c.K, c.Pattern) }

func refModeOf(s string) (gen.RefMode, bool) {
	for _, m := range gen.AllRefModes() {
		if m.String() == s {
			return m, true
		}
	}
	return gen.RefMode{}, false
}

// build writes the DAG into a fresh store.
func (c fileCase) build() (*store.Store, cid.Cid, uint64, error) {
	s := store.New()
	content := c.content()
	if c.Writer == "ours" {
		var root cid.Cid
		var sz uint64
		var err error
		gen.WithWidth(c.W, func() {
			root, sz, err = gen.BuildOurs(s, bytes.NewReader(content), c.Chunker)
		})
		return s, root, sz, err
	}
	m, ok := refModeOf(c.Writer)
	if !ok {
		return nil, cid.Undef, 0, fmt.Errorf("unknown writer %q", c.Writer)
	}
	root, sz, err := gen.BuildRef(s, content, c.Chunker, c.W, m)
	return s, root, sz, err
}

// shapeCounts lists every chunk count 0..w^3+w+1 (all balanced shapes up to a
// 4-level tree including the w^k boundaries ±1).
func shapeCounts(w int) []int {
	var out []int
	for n := 0; n <= w*w*w+w+1; n++ {
		out = append(out, n)
	}
	return out
}

// lengthsFor returns the content lengths for n chunks of size k: last chunk
// full, one byte short, one byte only.
func lengthsFor(n, k int) []int {
	if n == 0 {
		return []int{0}
	}
	if k == 1 {
		return []int{n}
	}
	full := n * k
	out := []int{full, full - 1}
	if k > 2 {
		out = append(out, (n-1)*k+1)
	}
	return out
}

// smallFileFamily enumerates the small-scope family shared by the file checks.
func smallFileFamily(widths []int, chunkSizes []int, patterns []string, writers []string) []fileCase {
	var out []fileCase
	for _, w := range widths {
		for _, k := range chunkSizes {
			for _, n := range shapeCounts(w) {
				for _, L := range lengthsFor(n, k) {
					for _, p := range patterns {
						if p == "equal" && n < 2 {
							continue
						}
						for _, wr := range writers {
							out = append(out, fileCase{Writer: wr, W: w, Chunker: fmt.Sprintf("size-%d", k), L: L, K: k, Pattern: p})
						}
					}
				}
			}
		}
	}
	return out
}

func allWriters() []string {
	out := []string{"ours"}
	for _, m := range gen.AllRefModes() {
		out = append(out, m.String())
	}
	return out
}

// groupByWidth orders cases so that cases of the same width are contiguous
// (the library's width is a process global).
func groupByWidth(cs []fileCase) map[int][]fileCase {
	out := map[int][]fileCase{}
	for _, c := range cs {
		out[c.W] = append(out[c.W], c)
	}
	return out
}
