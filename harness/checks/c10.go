package checks

import (
	"bytes"
	"encoding/json"
	"fmt"
	"io"
	"os"
	"strings"
	"sync"

	"github.com/ipfs/go-cid"
	"github.com/ipfs/go-unixfsnode/data/builder"
	quickbuilder "github.com/ipfs/go-unixfsnode/data/builder/quick"
	dagpb "github.com/ipld/go-codec-dagpb"
	"github.com/ipld/go-ipld-prime"
	cidlink "github.com/ipld/go-ipld-prime/linking/cid"

	"verif/harness/core"
	"verif/harness/gen"
	"verif/harness/store"
	"verif/harness/xplore"
)

func init() {
	Registry["C10"] = runC10
	Replayers["C10"] = func(raw []byte) string {
		var c c10Replay
		if err := json.Unmarshal(raw, &c); err != nil {
			return "bad case: " + err.Error()
		}
		if len(c.History) > 0 {
			// a build history: the last input alone (first thing this process
			// builds), then the history
			one := func(k c10Case) string {
				return xplore.RunOne(nil, nil, 0, func(x *xplore.Ctx) string { return k.buildOn(store.New(), x) }).Obs
			}
			last := c.History[len(c.History)-1]
			alone := one(last)
			var got string
			for _, k := range c.History {
				got = one(k)
			}
			if got != alone {
				return fmt.Sprintf("build-depends-on-history :: %s: alone %s, at the end of the history %s\n", last, alone, got)
			}
			return ""
		}
		base := xplore.RunOne(nil, nil, 0, func(x *xplore.Ctx) string { return c.Case.body(x) })
		res := xplore.RunOne(c.Choices, nil, 0, func(x *xplore.Ctx) string { return c.Case.body(x) })
		if res.Obs != base.Obs {
			return fmt.Sprintf("nondeterministic-build :: %s: default execution gives %s, choices %v give %s\n", c.Case, base.Obs, c.Choices, res.Obs)
		}
		return ""
	}
}

// permMenu lists the iteration orders offered for a map of n keys: all
// permutations for n <= 4, otherwise identity, rotations, reversal and
// adjacent swaps.
var permMenuCache sync.Map

func permMenu(n int) [][]int {
	if v, ok := permMenuCache.Load(n); ok {
		return v.([][]int)
	}
	var out [][]int
	id := make([]int, n)
	for i := range id {
		id[i] = i
	}
	if n <= 4 {
		permutations(n, func(p []int) { out = append(out, append([]int{}, p...)) })
		// permutations() starts with the identity
	} else if n > 16 {
		// large maps: a fixed menu of six orders
		mk := func(f func(i int) int) []int {
			p := make([]int, n)
			for i := range p {
				p[i] = f(i)
			}
			return p
		}
		out = append(out, id, mk(func(i int) int { return n - 1 - i }), mk(func(i int) int { return (i + 1) % n }), mk(func(i int) int { return (i + n/2) % n }))
		sw := append([]int{}, id...)
		sw[0], sw[1] = 1, 0
		out = append(out, sw)
		sw2 := append([]int{}, id...)
		sw2[n-1], sw2[n-2] = n-2, n-1
		out = append(out, sw2)
	} else {
		out = append(out, id)
		for r := 1; r < n; r++ {
			p := make([]int, n)
			for i := range p {
				p[i] = (i + r) % n
			}
			out = append(out, p)
		}
		rev := make([]int, n)
		for i := range rev {
			rev[i] = n - 1 - i
		}
		out = append(out, rev)
		for i := 0; i+1 < n; i++ {
			p := append([]int{}, id...)
			p[i], p[i+1] = p[i+1], p[i]
			out = append(out, p)
		}
	}
	permMenuCache.Store(n, out)
	return out
}

// overlayMu serialises executions that attach the process-global verifrt
// seams.
var overlayMu sync.Mutex

// withMapOrder runs f with map iteration order decided by x.
func withMapOrder(x *xplore.Ctx, partial *bool, f func()) {
	setMapPerm(func(n int, site string) []int {
		menu := permMenu(n)
		if n > 4 && partial != nil {
			*partial = true
		}
		return menu[x.Choose(len(menu), "maporder@"+site)]
	})
	defer setMapPerm(nil)
	f()
}

// fragReader delivers data in fragments chosen by the explorer.
type fragReader struct {
	data []byte
	pos  int
	x    *xplore.Ctx
}

func (f *fragReader) Read(p []byte) (int, error) {
	if len(p) == 0 {
		return 0, nil
	}
	rest := len(f.data) - f.pos
	if rest == 0 {
		return 0, io.EOF
	}
	full := len(p)
	if full > rest {
		full = rest
	}
	n := full
	eofWithData := false
	switch f.x.Choose(5, "fragment") {
	case 1:
		n = 1
	case 2:
		n = (full + 1) / 2
	case 3:
		return 0, nil
	case 4:
		eofWithData = full == rest // data together with EOF on the last fragment
	}
	copy(p, f.data[f.pos:f.pos+n])
	f.pos += n
	if eofWithData {
		return n, io.EOF
	}
	return n, nil
}

type c10Case struct {
	Kind    string   `json:"kind"` // file | sharded | plain | quick | recursive
	File    fileCase `json:"file,omitempty"`
	Fanout  int      `json:"fanout,omitempty"`
	Names   []string `json:"names,omitempty"`
	Permute bool     `json:"permute_entries,omitempty"`
	// Variant: "" | "shared-targets" (several names link the same block) |
	// "aliased-sizes" (the same, with a different Tsize per name) |
	// "mixed-threshold" (2000 generated entries whose links alternate between
	// 34-byte CIDv0 and 36-byte CIDv1, size estimate next to the auto-shard
	// threshold)
	Variant string `json:"variant,omitempty"`
	// Hasher: multihash code of the name hasher for sharded builds (0 = murmur3-x64-64)
	Hasher uint64 `json:"hasher,omitempty"`
	// History: a failed build of the same input may precede the build
	History bool `json:"history,omitempty"`
}

func (c c10Case) String() string {
	if c.Kind == "file" {
		if c.History {
			return "file " + c.File.String() + " after-failed-build"
		}
		return "file " + c.File.String()
	}
	h := ""
	if c.Hasher != 0 {
		h = fmt.Sprintf(" hasher=0x%x", c.Hasher)
	}
	if c.History {
		h += " after-failed-build"
	}
	return fmt.Sprintf("%s F=%d %q permute=%v %s%s", c.Kind, c.Fanout, trimNames(c.Names), c.Permute, c.Variant, h)
}

// entries builds the entry list of a directory case.
func (c c10Case) entries(s *store.Store) []gen.DirEntry {
	switch c.Variant {
	case "shared-targets":
		es := gen.Leaves(s, c.Names)
		for i := range es {
			es[i].Cid, es[i].Tsize = es[i%2].Cid, es[i%2].Tsize
		}
		return es
	case "zero-tsize":
		// one entry is an empty file (Tsize 0) among ordinary ones
		es := gen.Leaves(s, c.Names)
		ec, _ := gen.V1Raw.Sum(nil)
		s.Put(ec, []byte{})
		es[len(es)/2].Cid, es[len(es)/2].Tsize = ec, 0
		if len(es) > 3 {
			es[0].Cid, es[0].Tsize = ec, 0
		}
		return es
	case "aliased-sizes":
		// several names link the same block but record different sizes for it
		// (Tsize is whatever the caller says): nothing may depend on which of
		// them is met first
		es := gen.Leaves(s, c.Names)
		for i := range es {
			es[i].Cid, es[i].Tsize = es[i%2].Cid, uint64(100+17*i)
		}
		return es
	case "mixed-threshold":
		// 2000 names of 96 bytes: 192000 + 1000*34 + 1000*36 = 262000 <= 262144
		es := make([]gen.DirEntry, 2000)
		for i := range es {
			name := fmt.Sprintf("%096d", i)
			e := gen.Leaf(s, fmt.Sprint(i%7))
			if i%2 == 0 {
				e.Cid = cid.NewCidV0(e.Cid.Hash())
			}
			es[i] = gen.DirEntry{Name: name, Cid: e.Cid, Tsize: e.Tsize}
		}
		return es
	}
	return gen.Leaves(s, c.Names)
}

type c10Replay struct {
	Case    c10Case   `json:"case"`
	Choices []int     `json:"choices"`
	History []c10Case `json:"history,omitempty"`
}

// body is one build under the explorer's answers; returns the observation.
// With History, the build is preceded (free choice, not a deviation) by a build
// of the same input whose k-th storage write fails: what a failed build leaves
// behind in the process must not change what the next build returns.
func (c c10Case) body(x *xplore.Ctx) string {
	if c.History {
		if k := x.ChooseFree(6, "prior-failed-build"); k > 0 {
			s0 := store.New()
			// k = 1..3: the k-th Write fails; k = 4,5: the 1st / 2nd commit fails
			if k <= 3 {
				s0.OnWrite = func(n int) error {
					if n == k-1 {
						return store.ErrWrite
					}
					return nil
				}
			} else {
				s0.OnCommit = func(n int, _ cid.Cid) error {
					if n == k-4 {
						return store.ErrWrite
					}
					return nil
				}
			}
			xplore.RunOne(nil, nil, 0, func(x0 *xplore.Ctx) string { return c.buildOn(s0, x0) })
		}
	}
	return c.buildOn(store.New(), x)
}

func (c c10Case) buildOn(s *store.Store, x *xplore.Ctx) string {
	var root cid.Cid
	var sz uint64
	var err error
	switch c.Kind {
	case "file":
		// how the bytes reach the builder (free choice): through the fragmenting
		// reader, or as a reader with extra capabilities a builder might probe
		// (io.Seeker / Len()) positioned at the start of the content, or positioned
		// there after a prefix that is not part of the file
		var src io.Reader
		data := c.File.content()
		switch x.ChooseFree(5, "source-kind") {
		case 0:
			src = &fragReader{data: data, x: x}
		case 1:
			src = bytes.NewReader(data)
		case 2:
			br := bytes.NewReader(append([]byte("preceding record: not part of the file"), data...))
			br.Seek(int64(br.Len()-len(data)), io.SeekStart)
			src = br
		case 3:
			src = bytes.NewBuffer(append([]byte{}, data...))
		case 4:
			sr := io.NewSectionReader(bytes.NewReader(append([]byte("xx"), data...)), 2, int64(len(data)))
			sr.Seek(0, io.SeekStart)
			src = sr
		}
		gen.WithWidth(c.File.W, func() {
			root, sz, err = gen.BuildOurs(s, src, c.File.Chunker)
		})
	case "sharded", "plain", "quick":
		es := c.entries(s)
		if c.Permute && len(es) > 1 {
			var perms [][]int
			if len(es) <= 5 {
				permutations(len(es), func(p []int) { perms = append(perms, append([]int{}, p...)) })
			} else {
				n := len(es)
				id, rev, rot := make([]int, n), make([]int, n), make([]int, n)
				for i := range id {
					id[i], rev[i], rot[i] = i, n-1-i, (i+1)%n
				}
				perms = [][]int{id, rev, rot}
			}
			p := perms[x.ChooseFree(len(perms), "entry-order")]
			in := make([]gen.DirEntry, len(es))
			for i, j := range p {
				in[i] = es[j]
			}
			es = in
		}
		withMapOrder(x, nil, func() {
			switch c.Kind {
			case "sharded":
				if c.Hasher != 0 {
					root, sz, err = gen.OursShardedHasher(s, c.Fanout, c.Hasher, es)
				} else {
					root, sz, err = gen.OursSharded(s, c.Fanout, es)
				}
			case "plain":
				root, sz, err = gen.OursDir(s, es)
			case "quick":
				err = quickbuilder.Store(s.LinkSystem(), func(b *quickbuilder.Builder) error {
					m := map[string]quickbuilder.Node{}
					for _, e := range es {
						m[e.Name] = quickLeaf{cidlink.Link{Cid: e.Cid}, int64(e.Tsize)}
					}
					n := b.NewMapDirectory(m)
					if n == nil {
						return fmt.Errorf("nil node")
					}
					root = n.Link().(cidlink.Link).Cid
					q, _ := n.Size()
					sz = uint64(q)
					return nil
				})
			}
		})
	case "recursive":
		withMapOrder(x, nil, func() { root, sz, err = buildRecursiveFixture(s) })
	}
	if err != nil {
		return "error: " + err.Error()
	}
	return fmt.Sprintf("%s/%d", root, sz)
}

var fixtureOnce sync.Once
var fixtureDir string

// recursiveFixture creates (once) a small on-disk tree for the recursive
// importer.
func recursiveFixture() string {
	fixtureOnce.Do(func() {
		base := "/dev/shm"
		if _, err := os.Stat(base); err != nil {
			base = os.TempDir()
		}
		d, err := os.MkdirTemp(base, "verif-c10-")
		if err != nil {
			panic(err)
		}
		os.MkdirAll(d+"/t/sub", 0o755)
		os.WriteFile(d+"/t/a.txt", []byte("alpha"), 0o644)
		os.WriteFile(d+"/t/sub/b c", []byte("beta-beta"), 0o644)
		os.WriteFile(d+"/t/sub/empty", nil, 0o644)
		os.Symlink("../a.txt", d+"/t/sub/link")
		// roots of other kinds for imports that start at a file or a symlink
		os.MkdirAll(d+"/roots", 0o755)
		big := make([]byte, 256*1024+7)
		for i := range big {
			big[i] = byte(i*31 + i/253)
		}
		os.WriteFile(d+"/roots/two-chunks.bin", big, 0o644)
		os.WriteFile(d+"/roots/small.txt", []byte("a file that is the root of the import"), 0o644)
		os.WriteFile(d+"/roots/empty", nil, 0o644)
		os.Symlink("small.txt", d+"/roots/link")
		fixtureDir = d
	})
	return fixtureDir + "/t"
}

func cleanupFixture() {
	if fixtureDir != "" {
		os.RemoveAll(fixtureDir)
	}
}

// c10SameSlice: the caller's entry slice is an input, not scratch space. The
// same slice handed to a directory builder twice gives the same outcome twice
// (same link and size, or an error both times) and still holds the entries it
// held: entry lists with a link-less entry (which a builder may skip or
// refuse) at every position, repeated names, and the shard-threshold sized
// list are each built three times from one slice.
func c10SameSlice(r *core.Run) {
	s := store.New()
	leaves := gen.Leaves(s, []string{"a", "b", "c", "d", "e"})
	mk := func(names []string, nilAt int) []dagpb.PBLink {
		var out []dagpb.PBLink
		for i, n := range names {
			var l ipld.Link
			sz := int64(0)
			if i != nilAt {
				e := leaves[i%len(leaves)]
				l, sz = cidlink.Link{Cid: e.Cid}, int64(e.Tsize)
			}
			ent, err := builder.BuildUnixFSDirectoryEntry(n, sz, l)
			if err != nil {
				r.InternalError("BuildUnixFSDirectoryEntry: " + err.Error())
				return nil
			}
			out = append(out, ent)
		}
		return out
	}
	render := func(es []dagpb.PBLink) string {
		var parts []string
		for _, e := range es {
			h := "nil"
			if e.Hash.Link() != nil {
				h = e.Hash.Link().String()
			}
			parts = append(parts, fmt.Sprintf("%s->%s", e.Name.Must().String(), h))
		}
		return strings.Join(parts, " ")
	}
	type build struct {
		name string
		f    func(es []dagpb.PBLink, ls *ipld.LinkSystem) (ipld.Link, uint64, error)
	}
	builds := []build{
		{"BuildUnixFSDirectory", builder.BuildUnixFSDirectory},
		{"BuildUnixFSShardedDirectory(16)", func(es []dagpb.PBLink, ls *ipld.LinkSystem) (ipld.Link, uint64, error) {
			return builder.BuildUnixFSShardedDirectory(16, 0x22, es, ls)
		}},
	}
	lists := [][]string{{"a", "b", "c", "d"}, {"d", "c", "b", "a"}, {"a", "b", "a", "c"}, {"a"}, {}}
	n := 0
	for _, names := range lists {
		for nilAt := -1; nilAt < len(names); nilAt++ {
			for _, b := range builds {
				es := mk(names, nilAt)
				before := render(es)
				var outcomes []string
				for rep := 0; rep < 3; rep++ {
					var l ipld.Link
					var sz uint64
					var err error
					if p, pv := core.Guard(func() { l, sz, err = b.f(es, store.New().LinkSystem()) }); p {
						outcomes = append(outcomes, fmt.Sprintf("panic: %v", pv))
						continue
					}
					if err != nil {
						outcomes = append(outcomes, "error")
					} else {
						outcomes = append(outcomes, fmt.Sprintf("%v/%d", l, sz))
					}
					n++
				}
				desc := fmt.Sprintf("%s over entries [%s] built three times from one slice", b.name, before)
				if outcomes[0] != outcomes[1] || outcomes[1] != outcomes[2] {
					r.Violate("nondeterministic-build same-slice", fmt.Sprintf("%s: outcomes %v", desc, outcomes), nil)
				}
				if after := render(es); after != before {
					r.Violate("caller-slice-modified", fmt.Sprintf("%s: afterwards the caller's slice reads [%s]", desc, after), nil)
				}
			}
		}
	}
	r.Evaluations.Add(int64(n))
	r.Set("same_slice_builds", n)
}

// c10Sequences enumerates build histories: every sequence of up to three
// builds over a small alphabet of inputs chosen to look alike to anything the
// builders might remember between calls (equal totals cut differently, equal
// link counts, the same names under another fanout, the same directory through
// another builder). Each build in a history must return what the same input
// returns as the first build of its kind - a build's result is a function of
// its input, not of what this process built before. Sequential, nothing else
// running.
func c10Sequences(r *core.Run) {
	col := gen.Colliders("k", 12, 3)
	file := func(w int, ch string, L, K int) c10Case {
		return c10Case{Kind: "file", File: fileCase{Writer: "ours", W: w, Chunker: ch, L: L, K: K, Pattern: "distinct"}}
	}
	alphabet := []c10Case{
		file(2, "size-3", 6, 3), file(2, "size-4", 6, 4), file(2, "size-2", 6, 2), file(2, "size-3", 7, 3), file(3, "size-3", 6, 3),
		file(2, "size-3", 13, 3), file(2, "size-4", 13, 4),
		{Kind: "plain", Names: []string{"a", "b"}}, {Kind: "plain", Names: []string{"a", "c"}},
		{Kind: "sharded", Fanout: 8, Names: []string{col[0], col[1]}}, {Kind: "sharded", Fanout: 8, Names: []string{col[0], col[2]}},
		{Kind: "sharded", Fanout: 256, Names: []string{col[0], col[1]}},
		{Kind: "quick", Names: []string{"a", "b"}},
	}
	depth := 4
	if r.Quick() {
		depth = 3
	}
	r.Rule(fmt.Sprintf("build histories: every sequence of 1..%d builds over an alphabet of %d look-alike inputs (files of equal length cut differently, directories sharing names / fanouts / builders), run one after the other with nothing else in flight; oracle: each build returns what that input returned when it was the first build of the history set", depth, len(alphabet)))
	build := func(c c10Case) string {
		res := xplore.RunOne(nil, nil, 0, func(x *xplore.Ctx) string { return c.buildOn(store.New(), x) })
		if res.Panic != nil {
			return fmt.Sprintf("panic: %v", res.Panic)
		}
		return res.Obs
	}
	want := make([]string, len(alphabet))
	for i, c := range alphabet {
		want[i] = build(c)
	}
	seqs, builds := 0, 0
	var rec func(hist []int)
	rec = func(hist []int) {
		if len(hist) > 0 {
			seqs++
		}
		if len(hist) == depth {
			return
		}
		for i := range alphabet {
			h := append(append([]int{}, hist...), i)
			// replay the history from its start: what a prefix leaves behind is
			// part of the state the last build starts from
			var got string
			for _, k := range h {
				got = build(alphabet[k])
				builds++
			}
			if got != want[i] {
				var names []string
				var hc []c10Case
				for _, k := range h {
					names = append(names, alphabet[k].String())
					hc = append(hc, alphabet[k])
				}
				r.Violate("build-depends-on-history "+alphabet[i].Kind, fmt.Sprintf("history [%s]: the last build gives %s, alone it gave %s", strings.Join(names, " ; "), got, want[i]), c10Replay{History: hc})
				continue
			}
			rec(h)
		}
	}
	rec(nil)
	r.Evaluations.Add(int64(builds))
	r.States.Add(int64(seqs))
	r.Set("history_sequences", seqs)
	r.Set("history_depth", depth)
}

func runC10(r *core.Run) {
	c10SameSlice(r)
	c10Sequences(r)
	// a build's result does not depend on what else is being built through the
	// same LinkSystem at the same time (every interleaving at storage operations)
	concurrentBuilds(r, func([2]c11Build) bool { return true })
	defer cleanupFixture()
	r.Rule("stateless DFS over choice sequences: (i) the iteration order of every map range in the builders (instrumented overlay: all permutations for maps <= 4 keys, rotations/reversal/adjacent swaps up to 16 keys, six fixed orders above), (ii) every permutation of the entry slice (n <= 5), (iii) source-reader fragmentation {full, 1 byte, half, (0,nil), data+EOF} with deviation bound 3 (quick 2); inputs: small file family incl. rabin/buzhash, every subset of a 6-name colliding universe at F in {8,256}, plain, quick-builder and recursive builds; oracle: exactly one distinct (link,size) observation per logical input")
	if !overlayActive {
		r.InternalError("C10 needs the instrumented overlay build (run through run.sh)")
		return
	}
	r.Set("instrumentation", os.Getenv("VERIF_INSTR"))
	noteDegraded(r)
	var cases []c10Case
	fragBound := 2
	if !r.Quick() {
		fragBound = 3
	}
	// files
	for _, w := range []int{2, 3} {
		for _, n := range []int{0, 1, 2, 3, 4, 5, 7, 9} {
			for _, L := range lengthsFor(n, 3) {
				cases = append(cases, c10Case{Kind: "file", File: fileCase{Writer: "ours", W: w, Chunker: "size-3", L: L, K: 3, Pattern: "distinct"}})
			}
		}
	}
	for _, ch := range []string{"rabin-16-24-40", "buzhash", "", "size-1"} {
		for _, L := range []int{0, 1, 5, 12, 40, 90} {
			if (ch == "buzhash" || ch == "") && L > 5 && r.Quick() {
				continue
			}
			if ch == "size-1" && L > 12 && (r.Quick() || L > 40) {
				continue // one choice point per byte: quadratic in L
			}
			cases = append(cases, c10Case{Kind: "file", File: fileCase{Writer: "ours", W: 2, Chunker: ch, L: L, K: 5, Pattern: "distinct"}})
		}
	}
	// directories
	col := gen.Colliders("k", 12, 3)
	u := []string{col[0], col[1], col[2], gen.CollidersWith("m", col[0], 6, 2)[0], "b c", "é"}
	for mask := 1; mask < 1<<uint(len(u)); mask++ {
		names := gen.SubsetOf(u, mask)
		for _, f := range []int{8, 256} {
			cases = append(cases, c10Case{Kind: "sharded", Fanout: f, Names: names, Permute: len(names) <= 5})
		}
		cases = append(cases, c10Case{Kind: "plain", Names: names, Permute: len(names) <= 4})
		cases = append(cases, c10Case{Kind: "quick", Names: names})
	}
	// names that are byte strings, not text: ill-formed UTF-8 differing in one
	// invalid byte, a lone continuation byte, a truncated sequence (host file
	// names need not be UTF-8; distinct names stay distinct entries)
	bn := []string{"r-\xe9.txt", "r-\xe8.txt", "\x80", "\xe2\x82", "ok"}
	for mask := 3; mask < 1<<uint(len(bn)); mask++ {
		names := gen.SubsetOf(bn, mask)
		if len(names) < 2 {
			continue
		}
		cases = append(cases, c10Case{Kind: "plain", Names: names, Permute: true}, c10Case{Kind: "quick", Names: names}, c10Case{Kind: "sharded", Fanout: 8, Names: names, Permute: len(names) <= 3})
	}
	cases = append(cases, c10Case{Kind: "recursive"})
	// the same builds after a failed build of the same input in this process
	for _, n := range []int{1, 4, 7} {
		cases = append(cases, c10Case{Kind: "file", File: fileCase{Writer: "ours", W: 2, Chunker: "size-3", L: 3 * n, K: 3, Pattern: "distinct"}, History: true})
	}
	cases = append(cases, c10Case{Kind: "sharded", Fanout: 8, Names: u[:4], History: true}, c10Case{Kind: "plain", Names: u[:3], History: true}, c10Case{Kind: "recursive", History: true})
	// other name hashers the builder accepts: sha2-256, sha2-512, identity-free blake? (registered ones only)
	for _, h := range []uint64{0x12, 0x13} {
		for _, mask := range []int{3, 7, 0b101101, 63} {
			names := gen.SubsetOf(u, mask)
			for _, f := range []int{8, 256} {
				cases = append(cases, c10Case{Kind: "sharded", Fanout: f, Names: names, Permute: true, Hasher: h})
			}
		}
	}
	for mask := 3; mask < 1<<uint(len(u)); mask += 4 {
		names := gen.SubsetOf(u, mask)
		cases = append(cases, c10Case{Kind: "sharded", Fanout: 8, Names: names, Permute: len(names) <= 4, Variant: "shared-targets"})
		cases = append(cases, c10Case{Kind: "plain", Names: names, Permute: len(names) <= 4, Variant: "shared-targets"})
		cases = append(cases, c10Case{Kind: "sharded", Fanout: 8, Names: names, Permute: len(names) <= 4, Variant: "zero-tsize"})
		cases = append(cases, c10Case{Kind: "plain", Names: names, Variant: "zero-tsize"})
		cases = append(cases, c10Case{Kind: "sharded", Fanout: 8, Names: names, Permute: len(names) <= 4, Variant: "aliased-sizes"})
		cases = append(cases, c10Case{Kind: "plain", Names: names, Permute: len(names) <= 4, Variant: "aliased-sizes"})
	}
	cases = append(cases, c10Case{Kind: "plain", Permute: true, Variant: "mixed-threshold"}, c10Case{Kind: "quick", Variant: "mixed-threshold"})
	// two names with the same 64-bit hash: whatever the builder answers (it has
	// to refuse), the answer must not depend on the order of the entries
	ca, cb := gen.CollidingPair()
	for _, f := range []int{8, 256} {
		cases = append(cases, c10Case{Kind: "sharded", Fanout: f, Names: []string{ca, cb}, Permute: true}, c10Case{Kind: "sharded", Fanout: f, Names: []string{ca, "k75", cb, "b c"}, Permute: true})
	}
	if !r.Quick() {
		du := gen.DeepUniverse()
		for mask := 3; mask < 1<<uint(len(du)); mask += 97 {
			cases = append(cases, c10Case{Kind: "sharded", Fanout: 8, Names: gen.SubsetOf(du, mask)})
		}
	}
	var execs, truncated int64
	maxDepth := 0
	partialMaps := false
	// the verifrt seams are process globals: builds that cross a map range
	// run one at a time; file builds own all their nondeterminism through the
	// reader and run in parallel (grouped by width).
	var mu sync.Mutex
	runCase := func(i int, c c10Case) {
		bound, maxExecs := 3, 400000
		if c.Kind == "file" {
			bound = fragBound
		}
		if c.Variant == "mixed-threshold" {
			// 2000 entries: if the build shards, every shard is a map range;
			// entry orders are free choices, map orders get one deviation
			bound, maxExecs = 1, 400
		}
		obs := map[string][]int{}
		ex := &xplore.Explorer{Bound: bound, Horizon: 5000, Replay: 2, MaxExecs: maxExecs, OnDiverge: func(ch []int, a, b string) {
			// two runs with identical environment answers differ: that is the
			// property failing (hidden nondeterminism), reported as such
			r.Violate("nondeterministic-build hidden "+c.Kind, fmt.Sprintf("%s: identical choices %v gave %s then %s", c, ch, a, b), c10Replay{Case: c, Choices: ch})
		}}
		var first string
		ex.Explore(func(x *xplore.Ctx) string { return c.body(x) }, func(res xplore.Result) {
			if res.Truncated {
				return
			}
			if res.Panic != nil {
				r.Violate("panic build "+c.Kind, fmt.Sprintf("%s choices %v: %v", c, res.Choices, res.Panic), c10Replay{Case: c, Choices: res.Choices})
				return
			}
			if len(obs) == 0 {
				first = res.Obs
			}
			if _, ok := obs[res.Obs]; !ok {
				obs[res.Obs] = append([]int{}, res.Choices...)
				if res.Obs != first {
					labels := []string{}
					for k, ch := range res.Choices {
						if ch != 0 {
							labels = append(labels, fmt.Sprintf("%s=%d", res.Points[k].Label, ch))
						}
					}
					r.Violate("nondeterministic-build "+c.Kind, fmt.Sprintf("%s: default execution gives %s, deviations %v give %s", c, first, labels, res.Obs), c10Replay{Case: c, Choices: res.Choices})
				}
			}
		})
		mu.Lock()
		execs += int64(ex.Stats.Executions)
		truncated += int64(ex.Stats.Truncated)
		if ex.Stats.MaxDepth > maxDepth {
			maxDepth = ex.Stats.MaxDepth
		}
		mu.Unlock()
		if ex.Stats.Capped {
			r.Cap(fmt.Sprintf("execution cap hit for %s", c))
		}
		r.States.Add(1)
		r.Transitions.Add(int64(ex.Stats.ChoicePoints))
		r.Distinct(c.String())
		if i%37 == 0 {
			r.Sample(map[string]any{"input": c.String(), "executions": ex.Stats.Executions, "distinct_observations": len(obs)})
		}
	}
	byWidth := map[int][]c10Case{}
	var seq []c10Case
	for _, c := range cases {
		if c.Kind == "file" {
			byWidth[c.File.W] = append(byWidth[c.File.W], c)
		} else {
			seq = append(seq, c)
		}
	}
	for _, w := range []int{2, 3} {
		g := byWidth[w]
		core.ParallelFor(len(g), workers, func(i int) { runCase(i, g[i]) })
	}
	for i, c := range seq {
		runCase(i, c)
	}
	_ = partialMaps
	r.Evaluations.Add(execs)
	r.Traces.Add(execs)
	r.Set("executions", execs)
	r.Set("truncated_executions", truncated)
	r.Set("max_choice_depth", maxDepth)
	r.Set("inputs", len(cases))
	r.Set("fragmentation_deviation_bound_completed", fragBound)
	r.Set("map_order_deviation_bound_completed", 3)
}

func buildRecursiveFixture(s *store.Store) (cid.Cid, uint64, error) {
	l, sz, err := builder.BuildUnixFSRecursive(recursiveFixture(), s.LinkSystem())
	if err != nil {
		return cid.Undef, 0, err
	}
	return l.(cidlink.Link).Cid, sz, nil
}
