package checks

import (
	"context"
	"fmt"

	"github.com/ipfs/go-cid"
	dagpb "github.com/ipld/go-codec-dagpb"
	"github.com/ipld/go-ipld-prime"
	"github.com/ipld/go-ipld-prime/datamodel"
	"github.com/ipld/go-ipld-prime/linking"
	cidlink "github.com/ipld/go-ipld-prime/linking/cid"
	basicnode "github.com/ipld/go-ipld-prime/node/basic"
	"github.com/ipld/go-ipld-prime/traversal"
	"github.com/ipld/go-ipld-prime/traversal/selector"
)

// walkMatching loads root (un-reified) and runs the selector (given as a
// selector node) from it, the way a retrieval client does.
func walkMatching(ls *ipld.LinkSystem, root cid.Cid, selNode datamodel.Node, visit func(p traversal.Progress, n datamodel.Node) error) error {
	return walkMatchingCtx(context.Background(), ls, root, selNode, visit)
}

// walkMatchingCtx: the traversal (and every reification and load it causes)
// runs under ctx.
func walkMatchingCtx(ctx context.Context, ls *ipld.LinkSystem, root cid.Cid, selNode datamodel.Node, visit func(p traversal.Progress, n datamodel.Node) error) error {
	sel, err := selector.CompileSelector(selNode)
	if err != nil {
		return fmt.Errorf("compile selector: %w", err)
	}
	// the root is loaded as a plain dag-pb node even when the link system
	// reifies what it loads (the selector does the interpreting of the root)
	plain := *ls
	plain.NodeReifier = nil
	rootNode, err := loadRoot(&plain, root)
	if err != nil {
		return err
	}
	prog := traversal.Progress{
		Cfg: &traversal.Config{
			Ctx:        ctx,
			LinkSystem: *ls,
			LinkTargetNodePrototypeChooser: func(l datamodel.Link, _ linking.LinkContext) (datamodel.NodePrototype, error) {
				if cl, ok := l.(cidlink.Link); ok && cl.Cid.Prefix().Codec == cid.DagProtobuf {
					return dagpb.Type.PBNode, nil
				}
				return basicnode.Prototype.Any, nil
			},
		},
	}
	return prog.WalkMatching(rootNode, sel, visit)
}
