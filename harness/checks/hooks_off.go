//go:build !verif

package checks

import "errors"

const hooksAvailable = false

var errNoHooks = errors.New("hooks unavailable")

func hookHashBitsNext(b []byte, widths []int) ([]int, error)     { return nil, errNoHooks }
func hookHashBitsSlice(b []byte, offset, width int) (int, error) { return 0, errNoHooks }
