// Package checks holds one exhaustive bounded check per property.
package checks

import (
	"bytes"
	"context"
	"fmt"
	"io"
	"runtime"
	"sort"
	"strings"

	"github.com/ipfs/go-cid"
	unixfsnode "github.com/ipfs/go-unixfsnode"
	"github.com/ipfs/go-unixfsnode/file"
	dagpb "github.com/ipld/go-codec-dagpb"
	"github.com/ipld/go-ipld-prime"
	"github.com/ipld/go-ipld-prime/codec"
	"github.com/ipld/go-ipld-prime/datamodel"
	cidlink "github.com/ipld/go-ipld-prime/linking/cid"
	basicnode "github.com/ipld/go-ipld-prime/node/basic"

	"verif/harness/core"
	"verif/harness/store"
)

// Func is the entry point of a check.
type Func func(r *core.Run)

// Registry maps property ids to checks.
var Registry = map[string]Func{}

// Replayers re-run one recorded case; they return a description of what
// happened ("" when the case passes now).
var Replayers = map[string]func(raw []byte) string{}

var workers = runtime.NumCPU()

func protoFor(c cid.Cid) datamodel.NodePrototype {
	if c.Prefix().Codec == cid.DagProtobuf {
		return dagpb.Type.PBNode
	}
	return basicnode.Prototype.Any
}

// lsFor returns a link system over s carrying the UnixFS reifiers.
func lsFor(s *store.Store) *ipld.LinkSystem {
	ls := s.LinkSystem()
	unixfsnode.AddUnixFSReificationToLinkSystem(ls)
	return ls
}

// lsReifying is the "global reification" configuration: every node the link
// system loads is passed through unixfsnode.Reify (NodeReifier), so child
// blocks reach the library already interpreted.
// framingHeader is what lsFraming's raw codec puts in front of every block.
var framingHeader = []byte("SEALED-v1..\n")

// lsFraming: a link system whose raw codec is not the identity: every raw
// block is stored with a 12-byte header in front (as a sealing / compressing
// store would frame it) and read back without it. With the UnixFS reifiers.
func lsFraming(s *store.Store) *ipld.LinkSystem {
	ls := lsFor(s)
	enc, dec := ls.EncoderChooser, ls.DecoderChooser
	ls.EncoderChooser = func(lp datamodel.LinkPrototype) (codec.Encoder, error) {
		e, err := enc(lp)
		if err != nil {
			return nil, err
		}
		if clp, ok := lp.(cidlink.LinkPrototype); ok && clp.Codec == cid.Raw {
			return func(nd datamodel.Node, w io.Writer) error {
				if _, err := w.Write(framingHeader); err != nil {
					return err
				}
				return e(nd, w)
			}, nil
		}
		return e, nil
	}
	ls.DecoderChooser = func(l datamodel.Link) (codec.Decoder, error) {
		d, err := dec(l)
		if err != nil {
			return nil, err
		}
		if cl, ok := l.(cidlink.Link); ok && cl.Cid.Prefix().Codec == cid.Raw {
			return func(na datamodel.NodeAssembler, r io.Reader) error {
				hdr := make([]byte, len(framingHeader))
				if _, err := io.ReadFull(r, hdr); err != nil {
					return err
				}
				return d(na, r)
			}, nil
		}
		return d, nil
	}
	return ls
}

func lsReifying(s *store.Store) *ipld.LinkSystem {
	ls := lsFor(s)
	ls.NodeReifier = unixfsnode.Reify
	return ls
}

// loadRoot loads the root block un-reified.
func loadRoot(ls *ipld.LinkSystem, c cid.Cid) (ipld.Node, error) {
	return ls.Load(ipld.LinkContext{Ctx: context.Background()}, cidlink.Link{Cid: c}, protoFor(c))
}

// openers are the ways the statement lists to open a file DAG.
var openers = []string{"NewUnixFSFile", "Reify", "unixfs", "unixfs-preload"}

func openVia(how string, ls *ipld.LinkSystem, root ipld.Node) (ipld.Node, error) {
	switch how {
	case "NewUnixFSFile":
		return file.NewUnixFSFile(context.Background(), root, ls)
	case "NewUnixFSFile-any":
		// the same block decoded without a dag-pb prototype (a caller that
		// loads with basicnode.Prototype.Any and hands the node to the file
		// package)
		if root.Kind() != datamodel.Kind_Map {
			return file.NewUnixFSFile(context.Background(), root, ls)
		}
		var buf bytes.Buffer
		if err := dagpb.Encode(root, &buf); err != nil {
			return nil, err
		}
		nb := basicnode.Prototype.Any.NewBuilder()
		if err := dagpb.Decode(nb, &buf); err != nil {
			return nil, err
		}
		return file.NewUnixFSFile(context.Background(), nb.Build(), ls)
	case "Reify":
		return unixfsnode.Reify(ipld.LinkContext{Ctx: context.Background()}, root, ls)
	case "unixfs", "unixfs-preload":
		return ls.KnownReifiers[how](ipld.LinkContext{Ctx: context.Background()}, root, ls)
	case "Reify/zero-linkcontext":
		// the zero LinkContext (no context at all) is what LinkSystem.Load
		// accepts and what this repository's own tests pass
		return unixfsnode.Reify(ipld.LinkContext{}, root, ls)
	case "unixfs/zero-linkcontext", "unixfs-preload/zero-linkcontext":
		return ls.KnownReifiers[strings.TrimSuffix(how, "/zero-linkcontext")](ipld.LinkContext{}, root, ls)
	}
	return nil, fmt.Errorf("unknown opener %s", how)
}

// readAllMixed reads rs to EOF with buffers of the given sizes in rotation; a
// size of 0 is an empty-buffer Read, which must return (0, nil) or, only at the
// very end of the stream, (0, io.EOF) -- and never end the stream early.
func readAllMixed(rs io.Reader, sizes []int, limit int) ([]byte, error) {
	var out []byte
	for steps := 0; ; steps++ {
		if steps > limit {
			return out, fmt.Errorf("read did not terminate within %d calls", limit)
		}
		buf := make([]byte, sizes[steps%len(sizes)])
		n, err := rs.Read(buf)
		if n < 0 || n > len(buf) {
			return out, fmt.Errorf("Read returned n=%d for buffer %d", n, len(buf))
		}
		out = append(out, buf[:n]...)
		if err == io.EOF {
			if len(buf) == 0 {
				// an empty-buffer Read may report EOF only if the stream really
				// is at its end: the next non-empty Read must agree
				more := make([]byte, 8)
				if n2, _ := rs.Read(more); n2 > 0 {
					return append(out, more[:n2]...), fmt.Errorf("Read(empty buffer) returned io.EOF with %d+ bytes still to come", n2)
				}
			}
			return out, nil
		}
		if err != nil {
			return out, err
		}
	}
}

// readAllBuf reads rs to EOF with a fixed buffer size; it tolerates legal
// short reads and (0,nil) up to a small bound.
func readAllBuf(rs io.Reader, bufSize int, limit int) ([]byte, error) {
	var out []byte
	buf := make([]byte, bufSize)
	zero := 0
	for steps := 0; ; steps++ {
		if steps > limit {
			return out, fmt.Errorf("read did not terminate within %d calls", limit)
		}
		n, err := rs.Read(buf)
		if n < 0 || n > len(buf) {
			return out, fmt.Errorf("Read returned n=%d for buffer %d", n, len(buf))
		}
		out = append(out, buf[:n]...)
		if err == io.EOF {
			return out, nil
		}
		if err != nil {
			return out, err
		}
		if n == 0 {
			zero++
			if zero > 3 || bufSize == 0 {
				return out, fmt.Errorf("Read returned (0,nil) repeatedly")
			}
		} else {
			zero = 0
		}
	}
}

func cidKeys(cs []cid.Cid) []string {
	out := make([]string, len(cs))
	for i, c := range cs {
		out[i] = c.String()
	}
	return out
}

func short(c cid.Cid) string {
	s := c.String()
	if len(s) > 10 {
		return s[len(s)-8:]
	}
	return s
}

func shortList(cs []cid.Cid) string {
	out := make([]string, len(cs))
	for i, c := range cs {
		out[i] = short(c)
	}
	return strings.Join(out, ",")
}

func sortedKeys[V any](m map[string]V) []string {
	out := make([]string, 0, len(m))
	for k := range m {
		out = append(out, k)
	}
	sort.Strings(out)
	return out
}

func clip(b []byte, n int) string {
	if len(b) > n {
		return fmt.Sprintf("%x…(%d bytes)", b[:n], len(b))
	}
	return fmt.Sprintf("%x", b)
}

func pow(b, e int) int {
	r := 1
	for i := 0; i < e; i++ {
		r *= b
	}
	return r
}
