package checks

import (
	"context"
	"encoding/json"
	"fmt"
	"sort"
	"strings"
	"sync"

	refhamt "github.com/ipfs/boxo/ipld/unixfs/hamt"
	"github.com/ipfs/go-cid"
	format "github.com/ipfs/go-ipld-format"
	"github.com/ipld/go-ipld-prime"
	cidlink "github.com/ipld/go-ipld-prime/linking/cid"

	"verif/harness/core"
	"verif/harness/gen"
	"verif/harness/store"
)

func init() {
	Registry["C08"] = runC08
	Replayers["C08"] = func(raw []byte) string {
		var c c08Replay
		if err := json.Unmarshal(raw, &c); err != nil {
			return "bad case: " + err.Error()
		}
		var out []string
		c08ReplayRun(c, func(sig, detail string) { out = append(out, sig+" :: "+detail) })
		return joinLines(out)
	}
}

// c08Replay: a history of operations on the reference HAMT.
type c08Replay struct {
	Fanout  int      `json:"fanout"`
	History []string `json:"history"` // "+name" / "-name"
}

func applyHistory(s *store.Store, fanout int, leaves map[string]gen.DirEntry, hist []string) (cid.Cid, uint64, map[string]bool, error) {
	ctx := context.Background()
	sh, err := refhamt.NewShard(s.DAGService(), fanout)
	if err != nil {
		return cid.Undef, 0, nil, err
	}
	sh.SetCidBuilder(gen.V1PB)
	set := map[string]bool{}
	for _, op := range hist {
		name := op[1:]
		if op[0] == '+' {
			e := leaves[name]
			if err := sh.SetLink(ctx, name, &format.Link{Name: name, Size: e.Tsize, Cid: e.Cid}); err != nil {
				return cid.Undef, 0, nil, err
			}
			set[name] = true
		} else {
			if err := sh.Remove(ctx, name); err != nil && set[name] {
				return cid.Undef, 0, nil, err
			}
			delete(set, name)
		}
	}
	c, sz, err := gen.RefShardNode(s, sh)
	return c, sz, set, err
}

// c08State checks one reference-written state: this library's view equals the
// set; the builder reproduces the root.
func c08State(s *store.Store, fanout int, root cid.Cid, rootSize uint64, set map[string]bool, leaves map[string]gen.DirEntry, universe []string, desc string, viol func(sig, detail string)) {
	want := map[string]string{}
	var es []gen.DirEntry
	for _, n := range universe {
		if set[n] {
			want[n] = leaves[n].Cid.String()
			es = append(es, leaves[n])
		}
	}
	ls := lsFor(s)
	rn, err := loadRoot(ls, root)
	if err != nil {
		viol("load-root", err.Error())
		return
	}
	n, err := openVia("Reify", ls, rn)
	if err != nil {
		kind := "nonempty"
		if len(set) == 0 {
			kind = "empty-set"
		}
		viol("reify-reference-shard "+kind, fmt.Sprintf("%s: Reify failed on a reference-written shard: %v", desc, err))
	} else {
		if p, pv := core.Guard(func() {
			mapView(n, want, append(append([]string{}, universe...), "nope"), func(sig, detail string) {
				viol("read-reference "+sig, desc+": "+detail)
			})
		}); p {
			viol("panic read-reference", fmt.Sprintf("%s: %v", desc, pv))
		}
	}
	// the whole-directory operations in every order, each on a fresh node: what
	// a listing or a lookup leaves behind on the node must not change the
	// count, and the other way round
	if p, pv := core.Guard(func() {
		dirOpOrders(func() (ipld.Node, error) {
			rn, err := loadRoot(ls, root)
			if err != nil {
				return nil, err
			}
			return openVia("Reify", ls, rn)
		}, want, len(want) <= 3, func(sig, detail string) {
			viol("read-reference "+sig, desc+": "+detail)
		})
	}); p {
		viol("panic read-reference op-orders", fmt.Sprintf("%s: %v", desc, pv))
	}
	// the same through a link system that reifies every node it loads
	if p, pv := core.Guard(func() {
		lr := lsReifying(s)
		n2, err := lr.Load(ipld.LinkContext{Ctx: context.Background()}, cidlink.Link{Cid: root}, protoFor(root))
		if err != nil {
			viol("read-reference reifying-linksystem load", fmt.Sprintf("%s: %v", desc, err))
			return
		}
		mapView(n2, want, append(append([]string{}, universe...), "nope"), func(sig, detail string) {
			viol("read-reference reifying-linksystem "+sig, desc+": "+detail)
		})
	}); p {
		viol("panic read-reference reifying-linksystem", fmt.Sprintf("%s: %v", desc, pv))
	}
	if len(es) == 0 {
		return
	}
	// builder equality, entries in universe order and reversed
	for _, rev := range []bool{false, true} {
		in := append([]gen.DirEntry{}, es...)
		if rev {
			for i, j := 0, len(in)-1; i < j; i, j = i+1, j-1 {
				in[i], in[j] = in[j], in[i]
			}
		}
		bs := store.New()
		var broot cid.Cid
		var bsz uint64
		var err error
		if p, pv := core.Guard(func() { broot, bsz, err = gen.OursSharded(bs, fanout, in) }); p {
			viol("builder-panic", fmt.Sprintf("%s: %v", desc, pv))
			return
		}
		if err != nil {
			viol("builder-error", fmt.Sprintf("%s: %v", desc, err))
			return
		}
		if !broot.Equals(root) {
			viol("builder-root-differs", fmt.Sprintf("%s: builder root %s, reference root %s", desc, broot, root))
			return
		}
		if bsz != rootSize {
			viol("builder-size-differs", fmt.Sprintf("%s: builder size %d, reference Size() %d", desc, bsz, rootSize))
		}
	}
}

func c08ReplayRun(c c08Replay, viol func(sig, detail string)) {
	s := store.New()
	var universe []string
	seen := map[string]bool{}
	for _, op := range c.History {
		if !seen[op[1:]] {
			seen[op[1:]] = true
			universe = append(universe, op[1:])
		}
	}
	leaves := map[string]gen.DirEntry{}
	for _, n := range universe {
		leaves[n] = gen.Leaf(s, n)
	}
	root, sz, set, err := applyHistory(s, c.Fanout, leaves, c.History)
	if err != nil {
		viol("reference-error", err.Error())
		return
	}
	c08State(s, c.Fanout, root, sz, set, leaves, universe, fmt.Sprintf("F=%d history %v", c.Fanout, c.History), viol)
}

// c08BFS is the explicit-state search over the reference HAMT for one fanout:
// state = root CID; successors by reloading the DAG and applying one Set or
// Remove.
func c08BFS(r *core.Run, fanout int, universe []string) {
	ctx := context.Background()
	s := store.New()
	ds := s.DAGService()
	leaves := map[string]gen.DirEntry{}
	for _, n := range universe {
		leaves[n] = gen.Leaf(s, n)
	}
	type state struct {
		root cid.Cid
		set  string
		hist []string
	}
	empty, err := refhamt.NewShard(ds, fanout)
	if err != nil {
		r.InternalError(err.Error())
		return
	}
	empty.SetCidBuilder(gen.V1PB)
	ec, esz, err := gen.RefShardNode(s, empty)
	if err != nil {
		r.InternalError(err.Error())
		return
	}
	seen := map[string]bool{ec.KeyString(): true}
	formsPerSet := map[string]int{"": 1}
	frontier := []state{{ec, "", nil}}
	setOf := func(k string) map[string]bool {
		m := map[string]bool{}
		for _, n := range strings.Split(k, "\x00") {
			if n != "" {
				m[n] = true
			}
		}
		return m
	}
	keyOf := func(m map[string]bool) string {
		var ns []string
		for n := range m {
			ns = append(ns, n)
		}
		sort.Strings(ns)
		return strings.Join(ns, "\x00")
	}
	check := func(st state, sz uint64) {
		desc := fmt.Sprintf("F=%d history %v", fanout, st.hist)
		c08State(s, fanout, st.root, sz, setOf(st.set), leaves, universe, desc, func(sig, detail string) {
			r.Violate(sig+fmt.Sprintf(" F=%d", fanout), detail, c08Replay{Fanout: fanout, History: st.hist})
		})
	}
	check(frontier[0], esz)
	r.States.Add(1)
	maxDepth := 0
	for len(frontier) > 0 {
		cur := frontier[0]
		frontier = frontier[1:]
		for _, name := range universe {
			for _, op := range []string{"+", "-"} {
				nd, err := ds.Get(ctx, cur.root)
				if err != nil {
					r.InternalError(err.Error())
					return
				}
				sh, err := refhamt.NewHamtFromDag(ds, nd)
				if err != nil {
					r.InternalError("NewHamtFromDag: " + err.Error())
					return
				}
				sh.SetCidBuilder(gen.V1PB)
				members := setOf(cur.set)
				if op == "+" {
					e := leaves[name]
					if err := sh.SetLink(ctx, name, &format.Link{Name: name, Size: e.Tsize, Cid: e.Cid}); err != nil {
						// the reference refuses the insertion (names that agree in
						// every addressable hash bit): not a state
						r.Add("reference_rejected_transitions", 1)
						continue
					}
					members[name] = true
				} else {
					if err := sh.Remove(ctx, name); err != nil && members[name] {
						r.InternalError("reference Remove: " + err.Error())
						return
					}
					delete(members, name)
				}
				r.Transitions.Add(1)
				nc, nsz, err := gen.RefShardNode(s, sh)
				if err != nil {
					r.InternalError(err.Error())
					return
				}
				if seen[nc.KeyString()] {
					continue
				}
				seen[nc.KeyString()] = true
				k := keyOf(members)
				formsPerSet[k]++
				st := state{nc, k, append(append([]string{}, cur.hist...), op+name)}
				if len(st.hist) > maxDepth {
					maxDepth = len(st.hist)
				}
				frontier = append(frontier, st)
				r.States.Add(1)
				r.Evaluations.Add(1)
				r.Distinct(fmt.Sprintf("%d/%s", fanout, nc.KeyString()))
				check(st, nsz)
				if len(seen)%257 == 0 {
					r.Sample(map[string]any{"fanout": fanout, "history": st.hist, "root": nc.String()})
				}
			}
		}
	}
	multi := 0
	for _, n := range formsPerSet {
		if n > 1 {
			multi++
		}
	}
	bfsMu.Lock()
	defer bfsMu.Unlock()
	bfsStats = append(bfsStats, map[string]any{"fanout": fanout, "universe": trimNames(universe)[0], "states": len(seen), "entry_sets": len(formsPerSet), "sets_with_several_forms": multi, "max_depth": maxDepth})
}

var bfsMu sync.Mutex
var bfsStats []map[string]any

func runC08(r *core.Run) {
	r.Rule("explicit-state BFS on the reference HAMT (boxo): state = root CID (content addressing is the canonical form and an exact clone), alphabet = Set(x)/Remove(x) over a hash-colliding universe, search runs until the frontier is empty for every fanout 8..1024; in every state this library's view of the reference-written blocks must equal the entry set and BuildUnixFSShardedDirectory must reproduce (root CID, Size()); plus every subset of the deep universe compared against a freshly built reference shard")
	usize := 8
	if !r.Quick() {
		usize = 11
	}
	u := gen.Universe(usize)
	fanouts := []int{8, 16, 32, 64, 128, 256, 512, 1024}
	xu := gen.ExtremeUniverse()
	core.ParallelFor(2*len(fanouts), workers, func(i int) {
		if i < len(fanouts) {
			c08BFS(r, fanouts[i], u)
		} else {
			// engineered hashes: buckets 0/max at every level, pairs separating
			// only at the deepest addressable level
			c08BFS(r, fanouts[i-len(fanouts)], xu)
		}
	})
	// names that are byte strings rather than text: Latin-1 bytes, two names
	// differing only in a byte that is not valid UTF-8, a truncated multi-byte
	// sequences, U+FFFD itself (what a lossy conversion would produce)
	bu := []string{"caf\xe9.txt", "caf\xe8.txt", "\xff", "\xe2\x82", "caf\xef\xbf\xbd.txt", "\xc3"}
	core.ParallelFor(len(fanouts), workers, func(i int) { c08BFS(r, fanouts[i], bu) })
	r.Set("byte_string_universe", fmt.Sprintf("%q", bu))
	r.Set("extreme_universe", xu)
	sort.SliceStable(bfsStats, func(i, j int) bool { return bfsStats[i]["fanout"].(int) < bfsStats[j]["fanout"].(int) })
	r.Set("bfs_per_fanout", bfsStats)
	r.Set("universe", trimNames(u))

	// E part: subsets of the deep universe (depth 5-7 at fanout 8) built fresh.
	du := gen.DeepUniverse()
	step := 3
	if !r.Quick() {
		step = 1
	}
	var masks []int
	for m := 1; m < 1<<uint(len(du)); m += step {
		masks = append(masks, m)
	}
	core.ParallelFor(len(masks), workers, func(i int) {
		names := gen.SubsetOf(du, masks[i])
		for _, f := range []int{8, 1024} {
			if f == 1024 && i%8 != 0 {
				continue
			}
			s := store.New()
			leaves := map[string]gen.DirEntry{}
			var es []gen.DirEntry
			set := map[string]bool{}
			for _, n := range names {
				leaves[n] = gen.Leaf(s, n)
				es = append(es, leaves[n])
				set[n] = true
			}
			root, sz, err := gen.RefShard(s, f, es)
			r.Evaluations.Add(1)
			r.Transitions.Add(int64(len(es)))
			if err != nil {
				r.InternalError(err.Error())
				return
			}
			if r.Distinct(fmt.Sprintf("%d/%s", f, root.KeyString())) {
				r.States.Add(1)
			}
			hist := make([]string, len(names))
			for j, n := range names {
				hist[j] = "+" + n
			}
			c08State(s, f, root, sz, set, leaves, du, fmt.Sprintf("F=%d fresh %v", f, names), func(sig, detail string) {
				r.Violate(sig+fmt.Sprintf(" F=%d", f), detail, c08Replay{Fanout: f, History: hist})
			})
		}
	})
	// entries that alias one target (several names for the same file): the
	// reference's cumulative size counts every link
	au := gen.Universe(7)
	var amasks []int
	for m := 3; m < 1<<uint(len(au)); m++ {
		amasks = append(amasks, m)
	}
	core.ParallelFor(len(amasks), workers, func(i int) {
		names := gen.SubsetOf(au, amasks[i])
		for _, f := range []int{8, 256} {
			s := store.New()
			two := []gen.DirEntry{gen.Leaf(s, "target-one"), gen.Leaf(s, "the second target")}
			if i%2 == 1 {
				// an empty file: its link has Tsize 0 (present, value 0)
				ec, _ := gen.V1Raw.Sum(nil)
				s.Put(ec, []byte{})
				two[1] = gen.DirEntry{Cid: ec, Tsize: 0}
			}
			leaves := map[string]gen.DirEntry{}
			var es []gen.DirEntry
			set := map[string]bool{}
			for j, n := range names {
				leaves[n] = gen.DirEntry{Name: n, Cid: two[j%2].Cid, Tsize: two[j%2].Tsize}
				es = append(es, leaves[n])
				set[n] = true
			}
			root, sz, err := gen.RefShard(s, f, es)
			r.Evaluations.Add(1)
			if err != nil {
				r.InternalError(err.Error())
				return
			}
			r.States.Add(1)
			c08State(s, f, root, sz, set, leaves, au, fmt.Sprintf("F=%d aliased targets %v", f, trimNames(names)), func(sig, detail string) {
				r.Violate(sig+fmt.Sprintf(" aliased F=%d", f), detail, nil)
			})
		}
	})
}
