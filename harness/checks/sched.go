package checks

import (
	"fmt"
	"sort"
	"strings"

	"verif/harness/xplore"
)

// Cooperative scheduler for C17: real goroutines, one running at a time. A
// goroutine announces its next visible operation and parks; the scheduler
// (driven by the explorer's choices) decides whose operation happens next.
// Locks, Once and atomics of the instrumented packages are modelled here (the
// vsync/vatomic shims call syncHook instead of the real primitives).

const (
	accRead  = 0
	accWrite = 1
	accUse   = 2
)

type opKind int

const (
	opStart opKind = iota
	opAccess
	opLoad
	opLock
	opRLock
	opUnlock
	opOnce
	opOnceWait
	opAtomic
)

type schedOp struct {
	kind  opKind
	addr  uintptr
	write bool
	site  string
}

type vclock []int

func (v vclock) copy() vclock { return append(vclock{}, v...) }
func (v vclock) join(o vclock) {
	for i := range v {
		if i < len(o) && o[i] > v[i] {
			v[i] = o[i]
		}
	}
}

// leq: epoch (t,c) happens-before-or-equal v
func (v vclock) covers(t, c int) bool { return t < len(v) && c <= v[t] }

type sthread struct {
	id      int
	resume  chan struct{}
	pending *schedOp
	done    bool
	vc      vclock
	result  string
	panicv  any
}

type lockState struct {
	writer  int // -1 free
	readers map[int]bool
	vc      vclock
}

type onceState struct {
	state  int // 0 not started, 1 running, 2 done
	runner int
	vc     vclock
}

type accessRec struct {
	t     int
	clock int
	site  string
}

type addrState struct {
	lastWrite *accessRec
	reads     map[int]*accessRec
	threads   map[int]bool
	sites     map[string]bool
	mutated   bool // written, or used by a possibly mutating callee, by a scheduled thread
}

type sched struct {
	x        *xplore.Ctx
	threads  []*sthread
	yield    chan *sthread
	cur      *sthread
	locks    map[uintptr]*lockState
	onces    map[uintptr]*onceState
	atomics  map[uintptr]vclock
	addrs    map[uintptr]*addrState
	shared   map[string]bool // sites that are scheduling points; nil = all
	races    map[string]string
	promoted map[string]bool // sites found shared during this execution
	deadlock string
	points   int
	// epilogue: run alone after every body has finished (its effects
	// happen-after all of them): "the node is still usable afterwards"
	epilogue       func() string
	epilogueResult string
	epilogueRan    bool
}

var curSched *sched

// nclock is the vector-clock width: one slot per body plus the prelude's.
func (s *sched) nclock() int {
	if s.cur != nil {
		return len(s.cur.vc)
	}
	return 8
}

func newSched(x *xplore.Ctx, shared map[string]bool) *sched {
	return &sched{x: x, yield: make(chan *sthread), locks: map[uintptr]*lockState{}, onces: map[uintptr]*onceState{},
		atomics: map[uintptr]vclock{}, addrs: map[uintptr]*addrState{}, shared: shared, races: map[string]string{}, promoted: map[string]bool{}}
}

// point parks the running thread with its pending operation.
func (s *sched) point(o *schedOp) {
	t := s.cur
	t.pending = o
	s.yield <- t
	<-t.resume
}

func racePair(a, b string) string {
	if a > b {
		a, b = b, a
	}
	return a + " <-> " + b
}

// access records an access for the happens-before oracle and makes it a
// scheduling point when its site is shared. Accesses to a location commute
// unless one of them writes it (or hands it to a callee that may mutate what
// it refers to), so only locations touched by two threads AND mutated by one
// of them make their sites scheduling points.
func (s *sched) access(addr uintptr, kind int, site string) {
	t := s.cur
	if t == nil {
		return
	}
	write := kind == accWrite
	as := s.addrs[addr]
	if as == nil {
		as = &addrState{reads: map[int]*accessRec{}, threads: map[int]bool{}, sites: map[string]bool{}}
		s.addrs[addr] = as
	}
	as.threads[t.id] = true
	as.sites[site] = true
	if kind != accRead {
		as.mutated = true
	}
	if len(as.threads) > 1 && as.mutated {
		for st := range as.sites {
			if s.shared != nil && !s.shared[st] {
				s.promoted[st] = true
			}
		}
	}
	if s.shared == nil || s.shared[site] {
		s.point(&schedOp{kind: opAccess, addr: addr, write: write, site: site})
	}
	// vector-clock check at the moment the access happens ("use" counts as a
	// read of the variable: what the callee does to the referent is not known)
	rec := &accessRec{t: t.id, clock: t.vc[t.id], site: site}
	if w := as.lastWrite; w != nil && w.t != t.id && !t.vc.covers(w.t, w.clock) {
		kind := "write-read"
		if write {
			kind = "write-write"
		}
		s.races[racePair(w.site, site)] = kind
	}
	if write {
		for rt, rr := range as.reads {
			if rt != t.id && !t.vc.covers(rr.t, rr.clock) {
				s.races[racePair(rr.site, site)] = "read-write"
			}
		}
		as.lastWrite = rec
		as.reads = map[int]*accessRec{}
	} else {
		as.reads[t.id] = rec
	}
}

func (s *sched) lock(addr uintptr) *lockState {
	l := s.locks[addr]
	if l == nil {
		l = &lockState{writer: -1, readers: map[int]bool{}, vc: make(vclock, s.nclock())}
		s.locks[addr] = l
	}
	return l
}

// syncEvent models one synchronisation operation of the running thread.
func (s *sched) syncEvent(kind int, addr uintptr) int {
	t := s.cur
	if t == nil {
		return 1
	}
	switch kind {
	case evLock:
		s.point(&schedOp{kind: opLock, addr: addr, site: "Lock"})
		l := s.lock(addr)
		l.writer = t.id
		t.vc.join(l.vc)
	case evRLock:
		s.point(&schedOp{kind: opRLock, addr: addr, site: "RLock"})
		l := s.lock(addr)
		l.readers[t.id] = true
		t.vc.join(l.vc)
	case evUnlock:
		s.point(&schedOp{kind: opUnlock, addr: addr, site: "Unlock"})
		l := s.lock(addr)
		l.writer = -1
		l.vc.join(t.vc)
		t.vc[t.id]++
	case evRUnlock:
		s.point(&schedOp{kind: opUnlock, addr: addr, site: "RUnlock"})
		l := s.lock(addr)
		delete(l.readers, t.id)
		l.vc.join(t.vc)
		t.vc[t.id]++
	case evOnceEnter:
		o := s.onces[addr]
		if o == nil {
			o = &onceState{vc: make(vclock, s.nclock())}
			s.onces[addr] = o
		}
		if o.state == 0 {
			s.point(&schedOp{kind: opOnce, addr: addr, site: "Once.Do"})
		}
		if o.state == 0 {
			o.state, o.runner = 1, t.id
			return 1
		}
		if o.state == 1 && o.runner != t.id {
			s.point(&schedOp{kind: opOnceWait, addr: addr, site: "Once.Do(wait)"})
		}
		t.vc.join(o.vc)
		return 0
	case evOnceDone:
		o := s.onces[addr]
		o.state = 2
		o.vc.join(t.vc)
		t.vc[t.id]++
	case evAtomicLoad, evAtomicStore, evAtomicRMW:
		s.point(&schedOp{kind: opAtomic, addr: addr, site: "atomic"})
		v := s.atomics[addr]
		if v == nil {
			v = make(vclock, s.nclock())
			s.atomics[addr] = v
		}
		if kind != evAtomicStore {
			t.vc.join(v)
		}
		if kind != evAtomicLoad {
			v.join(t.vc)
			t.vc[t.id]++
		}
	}
	return 0
}

func (s *sched) enabled(t *sthread) bool {
	if t.done || t.pending == nil {
		return !t.done
	}
	switch t.pending.kind {
	case opLock:
		l := s.lock(t.pending.addr)
		return l.writer == -1 && len(l.readers) == 0
	case opRLock:
		return s.lock(t.pending.addr).writer == -1
	case opOnceWait:
		o := s.onces[t.pending.addr]
		return o != nil && o.state == 2
	}
	return true
}

// run executes the optional prelude alone (as a pseudo-thread whose effects
// happen-before every body), then the bodies to completion under the
// explorer's choices.
func (s *sched) run(prelude func(), bodies []func() string) {
	n := len(bodies)
	spawn := func(id int, vc vclock, b func() string) *sthread {
		t := &sthread{id: id, resume: make(chan struct{}), vc: vc, pending: &schedOp{kind: opStart, site: "start"}}
		go func() {
			<-t.resume
			func() {
				defer func() {
					if v := recover(); v != nil {
						t.panicv = v
					}
				}()
				t.result = b()
			}()
			t.done = true
			t.pending = nil
			s.yield <- t
		}()
		return t
	}
	base := make(vclock, n+1)
	if prelude != nil {
		pv := make(vclock, n+1)
		pv[n] = 1
		pt := spawn(n, pv, func() string { prelude(); return "" })
		// threads slice must be sized for lock/once clocks
		s.threads = make([]*sthread, n+1)
		s.threads[n] = pt
		for !pt.done {
			if !s.enabled(pt) {
				s.deadlock = "prelude blocked at " + pt.pending.site
				return
			}
			s.cur = pt
			pt.resume <- struct{}{}
			<-s.yield
		}
		s.cur = nil
		if pt.panicv != nil {
			s.deadlock = fmt.Sprintf("prelude panicked: %v", pt.panicv)
			return
		}
		base = pt.vc.copy()
		s.threads = s.threads[:0]
	}
	s.threads = nil
	for i, b := range bodies {
		vc := base.copy()
		vc[i] = 1
		s.threads = append(s.threads, spawn(i, vc, b))
	}
	last := -1
	for {
		var en []*sthread
		runningEnabled := false
		if last >= 0 && s.enabled(s.threads[last]) {
			en = append(en, s.threads[last])
			runningEnabled = true
		}
		unfinished := 0
		for _, t := range s.threads {
			if !t.done {
				unfinished++
			}
			if t.id != last && s.enabled(t) {
				en = append(en, t)
			}
		}
		if unfinished == 0 {
			break
		}
		if len(en) == 0 {
			var w []string
			for _, t := range s.threads {
				if !t.done {
					w = append(w, fmt.Sprintf("T%d waits at %s", t.id, t.pending.site))
				}
			}
			s.deadlock = strings.Join(w, "; ")
			break
		}
		// race oracle (a): two enabled threads about to touch the same location
		for i := 0; i < len(en); i++ {
			for j := i + 1; j < len(en); j++ {
				a, b := en[i].pending, en[j].pending
				if a != nil && b != nil && a.kind == opAccess && b.kind == opAccess && a.addr == b.addr && (a.write || b.write) {
					s.races[racePair(a.site, b.site)] = "co-enabled"
				}
			}
		}
		idx := 0
		if len(en) > 1 {
			if runningEnabled {
				idx = s.x.Choose(len(en), "preempt")
			} else {
				idx = s.x.ChooseFree(len(en), "switch")
			}
		}
		s.points++
		t := en[idx]
		s.cur = t
		last = t.id
		t.resume <- struct{}{}
		<-s.yield
	}
	s.cur = nil
	if s.epilogue != nil && s.deadlock == "" {
		ev := make(vclock, n+1)
		for _, t := range s.threads {
			ev.join(t.vc)
		}
		ev[n]++
		et := spawn(n, ev, s.epilogue)
		s.threads = append(s.threads, et)
		for !et.done {
			if !s.enabled(et) {
				s.deadlock = "every thread has returned, yet a later call on the node blocks at " + et.pending.site + " (a lock was left held)"
				break
			}
			s.cur = et
			et.resume <- struct{}{}
			<-s.yield
		}
		s.cur = nil
		s.threads = s.threads[:n]
		if et.done {
			s.epilogueRan = true
			if et.panicv != nil {
				s.epilogueResult = fmt.Sprintf("panic: %v", et.panicv)
			} else {
				s.epilogueResult = et.result
			}
		}
	}
}

// runScheduled runs bodies under a fresh scheduler with the verifrt hooks
// attached; loadPoint is called by the storage seam for every block load.
func runScheduled(x *xplore.Ctx, shared map[string]bool, prelude func(), bodies []func() string, epilogue ...func() string) *sched {
	s := newSched(x, shared)
	if len(epilogue) > 0 {
		s.epilogue = epilogue[0]
	}
	curSched = s
	setFieldHook(func(addr uintptr, kind int, site string) {
		if cs := curSched; cs != nil && cs.cur != nil {
			cs.access(addr, kind, site)
		}
	})
	setSyncHook(func(kind int, addr uintptr) int {
		if cs := curSched; cs != nil && cs.cur != nil {
			return cs.syncEvent(kind, addr)
		}
		// outside a scheduled thread (harness set-up code): uncontended
		if kind == evOnceEnter {
			return 1
		}
		return 0
	})
	defer func() {
		curSched = nil
		setFieldHook(nil)
		setSyncHook(nil)
	}()
	s.run(prelude, bodies)
	return s
}

func schedLoadPoint() {
	if cs := curSched; cs != nil && cs.cur != nil {
		cs.point(&schedOp{kind: opLoad, site: "load"})
	}
}

func sortedRaceList(m map[string]string) []string {
	var out []string
	for k, v := range m {
		out = append(out, k+" ("+v+")")
	}
	sort.Strings(out)
	return out
}
