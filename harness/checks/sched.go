package checks

import (
	"bytes"
	"fmt"
	"os"
	"runtime"
	"sort"
	"strconv"
	"strings"
	"time"

	"verif/harness/xplore"
)

// Cooperative scheduler for C17: real goroutines, one running at a time. A
// goroutine announces its next visible operation and parks; the scheduler
// (driven by the explorer's choices) decides whose operation happens next.
// Locks, Once and atomics of the instrumented packages are modelled here (the
// vsync/vatomic shims call syncHook instead of the real primitives).

const (
	accRead  = 0
	accWrite = 1
	accUse   = 2
)

type opKind int

const (
	opStart opKind = iota
	opAccess
	opLoad
	opLock
	opRLock
	opUnlock
	opOnce
	opOnceWait
	opAtomic
	opWGWait
	opCondWait
)

type schedOp struct {
	kind  opKind
	addr  uintptr
	write bool
	site  string
}

type vclock []int

func (v vclock) copy() vclock { return append(vclock{}, v...) }
func (v vclock) join(o vclock) {
	for i := range v {
		if i < len(o) && o[i] > v[i] {
			v[i] = o[i]
		}
	}
}

// leq: epoch (t,c) happens-before-or-equal v
func (v vclock) covers(t, c int) bool { return t < len(v) && c <= v[t] }

type sthread struct {
	id      int
	goid    uint64
	resume  chan struct{}
	pending *schedOp
	done    bool
	vc      vclock
	result  string
	panicv  any
}

type lockState struct {
	writer  int // -1 free
	readers map[int]bool
	vc      vclock
}

type onceState struct {
	state  int // 0 not started, 1 running, 2 done
	runner int
	vc     vclock
}

type wgState struct {
	count int
	vc    vclock
}

type condState struct {
	waiters   []int
	signalled map[int]bool
	vc        vclock
}

// maxDyn bounds the goroutines one execution may start (vector-clock width).
const maxDyn = 48

type accessRec struct {
	t     int
	clock int
	site  string
}

type addrState struct {
	lastWrite *accessRec
	reads     map[int]*accessRec
	threads   map[int]bool
	sites     map[string]bool
	mutated   bool // written, or used by a possibly mutating callee, by a scheduled thread
}

type sched struct {
	x        *xplore.Ctx
	threads  []*sthread
	yield    chan *sthread
	cur      *sthread
	locks    map[uintptr]*lockState
	onces    map[uintptr]*onceState
	atomics  map[uintptr]vclock
	addrs    map[uintptr]*addrState
	shared   map[string]bool // sites that are scheduling points; nil = all
	races    map[string]string
	promoted map[string]bool // sites found shared during this execution
	deadlock string
	points   int
	// goroutines the library itself starts (go statements of the instrumented
	// packages arrive through verifrt.Go): scheduled like the bodies, ids
	// after the pseudo-thread's
	dyn        []*sthread
	nbodies    int
	spawnFn    func(id int, vc vclock, b func() string) *sthread
	wgs        map[uintptr]*wgState
	conds      map[uintptr]*condState
	unmodelled string // set when an execution leaves what the scheduler models
	timer      *time.Timer
	// epilogue: run alone after every body has finished (its effects
	// happen-after all of them): "the node is still usable afterwards"
	epilogue       func() string
	epilogueResult string
	epilogueRan    bool
}

var curSched *sched

// schedLight: the overlay is the degraded one (real sync primitives, go
// statements left alone): scheduling points are block loads / writes only.
var schedLight = os.Getenv("VERIF_INSTR") != "" && os.Getenv("VERIF_INSTR") != "full"

// schedGaveUp: a thread once blocked where the scheduler cannot see it; no
// further schedule exploration in this process (every later execution would
// wait for the same timeout).
var schedGaveUp string

// curGoid: id of the calling goroutine (from the first line of its stack).
func curGoid() uint64 {
	var buf [64]byte
	b := buf[:runtime.Stack(buf[:], false)]
	b = bytes.TrimPrefix(b, []byte("goroutine "))
	if i := bytes.IndexByte(b, ' '); i > 0 {
		n, _ := strconv.ParseUint(string(b[:i]), 10, 64)
		return n
	}
	return 0
}

// await waits for the running thread's next yield. A thread that does not
// come back within the patience blocked on something the scheduler does not
// model (a real lock of the light overlay held across a scheduling point, a
// primitive inside another module): the execution is abandoned and not judged.
func (s *sched) await() bool {
	patience := 30 * time.Second
	if schedLight {
		patience = 5 * time.Second
	}
	if s.timer == nil {
		s.timer = time.NewTimer(patience)
	} else {
		s.timer.Reset(patience)
	}
	select {
	case <-s.yield:
		if !s.timer.Stop() {
			select {
			case <-s.timer.C:
			default:
			}
		}
		return true
	case <-s.timer.C:
		s.unmodelled = "a thread blocked where the scheduler cannot see it (waiting outside the modelled primitives)"
		schedGaveUp = s.unmodelled
		return false
	}
}

// schedCapRun, when set by a check's runner, receives a note whenever an
// execution left what the scheduler models (its oracles are then skipped and
// the run is not reported as exhaustive).
var schedCapRun func(what string)

// outside reports (and records) that this execution is not to be judged.
func (s *sched) outside() bool {
	if s.unmodelled == "" {
		return false
	}
	if schedCapRun != nil {
		schedCapRun("execution outside the scheduler's model, not judged: " + s.unmodelled)
	}
	return true
}

// nclock is the vector-clock width: one slot per body plus the prelude's.
func (s *sched) nclock() int {
	if s.cur != nil {
		return len(s.cur.vc)
	}
	return 8
}

func newSched(x *xplore.Ctx, shared map[string]bool) *sched {
	return &sched{x: x, yield: make(chan *sthread), locks: map[uintptr]*lockState{}, onces: map[uintptr]*onceState{},
		atomics: map[uintptr]vclock{}, addrs: map[uintptr]*addrState{}, shared: shared, races: map[string]string{}, promoted: map[string]bool{},
		wgs: map[uintptr]*wgState{}, conds: map[uintptr]*condState{}}
}

// point parks the running thread with its pending operation.
func (s *sched) point(o *schedOp) {
	t := s.cur
	if schedLight && t.goid != curGoid() {
		// a goroutine the library started itself (the light overlay leaves go
		// statements alone): not a thread of this scheduler, runs free
		s.unmodelled = "the library runs goroutines of its own and the build is not fully instrumented"
		return
	}
	t.pending = o
	s.yield <- t
	<-t.resume
}

func racePair(a, b string) string {
	if a > b {
		a, b = b, a
	}
	return a + " <-> " + b
}

// access records an access for the happens-before oracle and makes it a
// scheduling point when its site is shared. Accesses to a location commute
// unless one of them writes it (or hands it to a callee that may mutate what
// it refers to), so only locations touched by two threads AND mutated by one
// of them make their sites scheduling points.
func (s *sched) access(addr uintptr, kind int, site string) {
	t := s.cur
	if t == nil {
		return
	}
	write := kind == accWrite
	as := s.addrs[addr]
	if as == nil {
		as = &addrState{reads: map[int]*accessRec{}, threads: map[int]bool{}, sites: map[string]bool{}}
		s.addrs[addr] = as
	}
	as.threads[t.id] = true
	as.sites[site] = true
	if kind != accRead {
		as.mutated = true
	}
	if len(as.threads) > 1 && as.mutated {
		for st := range as.sites {
			if s.shared != nil && !s.shared[st] {
				s.promoted[st] = true
			}
		}
	}
	if s.shared == nil || s.shared[site] {
		s.point(&schedOp{kind: opAccess, addr: addr, write: write, site: site})
	}
	// vector-clock check at the moment the access happens ("use" counts as a
	// read of the variable: what the callee does to the referent is not known)
	rec := &accessRec{t: t.id, clock: t.vc[t.id], site: site}
	if w := as.lastWrite; w != nil && w.t != t.id && !t.vc.covers(w.t, w.clock) {
		kind := "write-read"
		if write {
			kind = "write-write"
		}
		s.races[racePair(w.site, site)] = kind
	}
	if write {
		for rt, rr := range as.reads {
			if rt != t.id && !t.vc.covers(rr.t, rr.clock) {
				s.races[racePair(rr.site, site)] = "read-write"
			}
		}
		as.lastWrite = rec
		as.reads = map[int]*accessRec{}
	} else {
		as.reads[t.id] = rec
	}
}

func (s *sched) lock(addr uintptr) *lockState {
	l := s.locks[addr]
	if l == nil {
		l = &lockState{writer: -1, readers: map[int]bool{}, vc: make(vclock, s.nclock())}
		s.locks[addr] = l
	}
	return l
}

// syncEvent models one synchronisation operation of the running thread.
func (s *sched) syncEvent(kind int, addr uintptr) int {
	t := s.cur
	if t == nil {
		return 1
	}
	switch kind {
	case evLock:
		s.point(&schedOp{kind: opLock, addr: addr, site: "Lock"})
		l := s.lock(addr)
		l.writer = t.id
		t.vc.join(l.vc)
	case evRLock:
		s.point(&schedOp{kind: opRLock, addr: addr, site: "RLock"})
		l := s.lock(addr)
		l.readers[t.id] = true
		t.vc.join(l.vc)
	case evUnlock:
		s.point(&schedOp{kind: opUnlock, addr: addr, site: "Unlock"})
		l := s.lock(addr)
		l.writer = -1
		l.vc.join(t.vc)
		t.vc[t.id]++
	case evRUnlock:
		s.point(&schedOp{kind: opUnlock, addr: addr, site: "RUnlock"})
		l := s.lock(addr)
		delete(l.readers, t.id)
		l.vc.join(t.vc)
		t.vc[t.id]++
	case evOnceEnter:
		o := s.onces[addr]
		if o == nil {
			o = &onceState{vc: make(vclock, s.nclock())}
			s.onces[addr] = o
		}
		if o.state == 0 {
			s.point(&schedOp{kind: opOnce, addr: addr, site: "Once.Do"})
		}
		if o.state == 0 {
			o.state, o.runner = 1, t.id
			return 1
		}
		if o.state == 1 && o.runner != t.id {
			s.point(&schedOp{kind: opOnceWait, addr: addr, site: "Once.Do(wait)"})
		}
		t.vc.join(o.vc)
		return 0
	case evOnceDone:
		o := s.onces[addr]
		o.state = 2
		o.vc.join(t.vc)
		t.vc[t.id]++
	case evTryLock:
		s.point(&schedOp{kind: opAtomic, addr: addr, site: "TryLock"})
		l := s.lock(addr)
		if l.writer != -1 || len(l.readers) > 0 {
			return 0
		}
		l.writer = t.id
		t.vc.join(l.vc)
		return 1
	case evTryRLock:
		s.point(&schedOp{kind: opAtomic, addr: addr, site: "TryRLock"})
		l := s.lock(addr)
		if l.writer != -1 {
			return 0
		}
		l.readers[t.id] = true
		t.vc.join(l.vc)
		return 1
	case evWGAdd:
		s.wg(addr).count++
	case evWGDone:
		s.point(&schedOp{kind: opAtomic, addr: addr, site: "WaitGroup.Done"})
		w := s.wg(addr)
		w.count--
		w.vc.join(t.vc)
		t.vc[t.id]++
	case evWGWait:
		s.point(&schedOp{kind: opWGWait, addr: addr, site: "WaitGroup.Wait"})
		t.vc.join(s.wg(addr).vc)
	case evCondEnq:
		c := s.cond(addr)
		c.waiters = append(c.waiters, t.id)
	case evCondWait:
		s.point(&schedOp{kind: opCondWait, addr: addr, site: "Cond.Wait"})
		c := s.cond(addr)
		delete(c.signalled, t.id)
		t.vc.join(c.vc)
	case evCondSignal, evCondBcast:
		s.point(&schedOp{kind: opAtomic, addr: addr, site: "Cond.Signal"})
		c := s.cond(addr)
		for len(c.waiters) > 0 {
			c.signalled[c.waiters[0]] = true
			c.waiters = c.waiters[1:]
			if kind == evCondSignal {
				break
			}
		}
		c.vc.join(t.vc)
		t.vc[t.id]++
	case evAtomicLoad, evAtomicStore, evAtomicRMW:
		s.point(&schedOp{kind: opAtomic, addr: addr, site: "atomic"})
		v := s.atomics[addr]
		if v == nil {
			v = make(vclock, s.nclock())
			s.atomics[addr] = v
		}
		if kind != evAtomicStore {
			t.vc.join(v)
		}
		if kind != evAtomicLoad {
			v.join(t.vc)
			t.vc[t.id]++
		}
	}
	return 0
}

func (s *sched) wg(addr uintptr) *wgState {
	w := s.wgs[addr]
	if w == nil {
		w = &wgState{vc: make(vclock, s.nclock())}
		s.wgs[addr] = w
	}
	return w
}

func (s *sched) cond(addr uintptr) *condState {
	c := s.conds[addr]
	if c == nil {
		c = &condState{signalled: map[int]bool{}, vc: make(vclock, s.nclock())}
		s.conds[addr] = c
	}
	return c
}

// spawnChild starts f as a thread of its own: what the running thread did so
// far happens-before it. Not a scheduling point by itself (the child's start
// is one).
func (s *sched) spawnChild(f func()) {
	p := s.cur
	if p == nil || s.spawnFn == nil || len(s.dyn) >= maxDyn {
		if p != nil && s.unmodelled == "" {
			s.unmodelled = fmt.Sprintf("more than %d goroutines started in one execution", maxDyn)
		}
		f() // inline: an unmanaged goroutine would call the hooks under the spawner's identity
		return
	}
	id := s.nbodies + 1 + len(s.dyn)
	vc := p.vc.copy()
	vc[id] = 1
	p.vc[p.id]++
	s.dyn = append(s.dyn, s.spawnFn(id, vc, func() string { f(); return "" }))
}

// all: the bodies (or the pseudo-thread running alone) and every live
// goroutine the library started.
func (s *sched) all() []*sthread {
	return append(append([]*sthread{}, s.threads...), s.dyn...)
}

// runAlone drives pseudo-thread pt (prelude / epilogue) and whatever goroutines
// the library starts meanwhile, deterministically (first enabled thread),
// until pt has returned and the goroutines are done or blocked. Returns what
// pt is blocked at, "" when it returned.
func (s *sched) runAlone(pt *sthread) string {
	for {
		var pick *sthread
		for _, t := range append([]*sthread{pt}, s.dyn...) {
			if t != nil && !t.done && s.enabled(t) {
				pick = t
				break
			}
		}
		if pick == nil {
			if !pt.done {
				return pt.pending.site
			}
			return ""
		}
		s.cur = pick
		pick.resume <- struct{}{}
		if !s.await() {
			return ""
		}
		s.cur = nil
		if pick != pt && pick.done && pick.panicv != nil && s.deadlock == "" {
			s.deadlock = fmt.Sprintf("a goroutine started by the library panicked: %v", pick.panicv)
		}
	}
}

func (s *sched) enabled(t *sthread) bool {
	if t.done || t.pending == nil {
		return !t.done
	}
	switch t.pending.kind {
	case opLock:
		l := s.lock(t.pending.addr)
		return l.writer == -1 && len(l.readers) == 0
	case opRLock:
		return s.lock(t.pending.addr).writer == -1
	case opOnceWait:
		o := s.onces[t.pending.addr]
		return o != nil && o.state == 2
	case opWGWait:
		return s.wg(t.pending.addr).count <= 0
	case opCondWait:
		return s.cond(t.pending.addr).signalled[t.id]
	}
	return true
}

// run executes the optional prelude alone (as a pseudo-thread whose effects
// happen-before every body), then the bodies to completion under the
// explorer's choices.
func (s *sched) run(prelude func(), bodies []func() string) {
	n := len(bodies)
	spawn := func(id int, vc vclock, b func() string) *sthread {
		t := &sthread{id: id, resume: make(chan struct{}), vc: vc, pending: &schedOp{kind: opStart, site: "start"}}
		go func() {
			t.goid = curGoid()
			<-t.resume
			func() {
				defer func() {
					if v := recover(); v != nil {
						t.panicv = v
					}
				}()
				t.result = b()
			}()
			t.done = true
			t.pending = nil
			s.yield <- t
		}()
		return t
	}
	s.nbodies = n
	s.spawnFn = spawn
	width := n + 1 + maxDyn
	base := make(vclock, width)
	if prelude != nil {
		pv := make(vclock, width)
		pv[n] = 1
		pt := spawn(n, pv, func() string { prelude(); return "" })
		if at := s.runAlone(pt); at != "" {
			s.deadlock = "prelude blocked at " + at
			return
		}
		if s.unmodelled != "" {
			return
		}
		if pt.panicv != nil {
			s.deadlock = fmt.Sprintf("prelude panicked: %v", pt.panicv)
			return
		}
		if s.deadlock != "" {
			return
		}
		base = pt.vc.copy()
	}
	s.threads = nil
	for i, b := range bodies {
		vc := base.copy()
		vc[i] = 1
		s.threads = append(s.threads, spawn(i, vc, b))
	}
	var last *sthread
	for {
		var en []*sthread
		runningEnabled := false
		if last != nil && s.enabled(last) {
			en = append(en, last)
			runningEnabled = true
		}
		unfinished, bodiesLeft := 0, 0
		for _, t := range s.all() {
			if !t.done {
				unfinished++
				if t.id < n {
					bodiesLeft++
				}
			}
			if t != last && s.enabled(t) {
				en = append(en, t)
			}
		}
		if unfinished == 0 {
			break
		}
		if len(en) == 0 {
			if bodiesLeft == 0 {
				// only goroutines of the library are left, blocked for good: a
				// leak, not something the callers wait for
				break
			}
			var w []string
			for _, t := range s.all() {
				if !t.done {
					w = append(w, fmt.Sprintf("T%d waits at %s", t.id, t.pending.site))
				}
			}
			s.deadlock = strings.Join(w, "; ")
			break
		}
		// race oracle (a): two enabled threads about to touch the same location
		for i := 0; i < len(en); i++ {
			for j := i + 1; j < len(en); j++ {
				a, b := en[i].pending, en[j].pending
				if a != nil && b != nil && a.kind == opAccess && b.kind == opAccess && a.addr == b.addr && (a.write || b.write) {
					s.races[racePair(a.site, b.site)] = "co-enabled"
				}
			}
		}
		idx := 0
		if len(en) > 1 {
			if runningEnabled {
				idx = s.x.Choose(len(en), "preempt")
			} else {
				idx = s.x.ChooseFree(len(en), "switch")
			}
		}
		s.points++
		t := en[idx]
		s.cur = t
		last = t
		t.resume <- struct{}{}
		if !s.await() {
			return
		}
		if t.id > n && t.done && t.panicv != nil && s.deadlock == "" {
			s.deadlock = fmt.Sprintf("a goroutine started by the library panicked: %v", t.panicv)
			break
		}
	}
	s.cur = nil
	if s.epilogue != nil && s.deadlock == "" && s.unmodelled == "" {
		ev := make(vclock, width)
		for _, t := range s.all() {
			ev.join(t.vc)
		}
		ev[n]++
		et := spawn(n, ev, s.epilogue)
		if at := s.runAlone(et); at != "" {
			s.deadlock = "every thread has returned, yet a later call on the node blocks at " + at + " (a lock was left held)"
		}
		s.cur = nil
		if et.done {
			s.epilogueRan = true
			if et.panicv != nil {
				s.epilogueResult = fmt.Sprintf("panic: %v", et.panicv)
			} else {
				s.epilogueResult = et.result
			}
		}
	}
}

// runScheduled runs bodies under a fresh scheduler with the verifrt hooks
// attached; loadPoint is called by the storage seam for every block load.
func runScheduled(x *xplore.Ctx, shared map[string]bool, prelude func(), bodies []func() string, epilogue ...func() string) *sched {
	s := newSched(x, shared)
	if schedGaveUp != "" {
		s.unmodelled = schedGaveUp
		return s
	}
	if len(epilogue) > 0 {
		s.epilogue = epilogue[0]
	}
	curSched = s
	setFieldHook(func(addr uintptr, kind int, site string) {
		if cs := curSched; cs != nil && cs.cur != nil {
			cs.access(addr, kind, site)
		}
	})
	setSyncHook(func(kind int, addr uintptr) int {
		if cs := curSched; cs != nil && cs.cur != nil {
			return cs.syncEvent(kind, addr)
		}
		// outside a scheduled thread (harness set-up code): uncontended
		if kind == evOnceEnter || kind == evTryLock || kind == evTryRLock {
			return 1
		}
		return 0
	})
	setSpawnHook(func(f func()) {
		if cs := curSched; cs != nil && cs.cur != nil {
			cs.spawnChild(f)
			return
		}
		go f()
	})
	defer func() {
		curSched = nil
		setFieldHook(nil)
		setSyncHook(nil)
		setSpawnHook(nil)
	}()
	s.run(prelude, bodies)
	return s
}

func schedLoadPoint() {
	if cs := curSched; cs != nil && cs.cur != nil {
		cs.point(&schedOp{kind: opLoad, site: "load"})
	}
}

func sortedRaceList(m map[string]string) []string {
	var out []string
	for k, v := range m {
		out = append(out, k+" ("+v+")")
	}
	sort.Strings(out)
	return out
}

// noteDegraded: with the light overlay (real sync, no field hooks, go
// statements left alone) schedule exploration and map-order ownership are
// partial; the run is then not reported as exhaustive.
func noteDegraded(r interface{ Cap(string) }) {
	if schedLight {
		r.Cap("instrumentation degraded (light overlay): schedule points at storage operations only, no race oracle")
	}
}

// exploreBudget: wall-clock budget of one schedule exploration (see C17): a
// budget, not an oracle -- an exploration that runs out of it is reported as
// capped (exhaustive:false), never as a violation.
func exploreBudget(quick bool) time.Duration {
	if quick {
		return 45 * time.Second
	}
	return 15 * time.Minute
}
