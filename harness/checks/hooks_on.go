//go:build verif

package checks

import (
	"github.com/ipfs/go-unixfsnode/data/builder"
	"github.com/ipfs/go-unixfsnode/hamt"
)

// The build-tagged hooks committed in /repo (MANIFEST.hooks). When a change to
// /repo leaves them uncompilable (a private helper renamed), run.sh builds the
// harness without the tag and hooks_off.go takes over.
const hooksAvailable = true

func hookHashBitsNext(b []byte, widths []int) ([]int, error) {
	return hamt.VerifHashBitsNext(b, widths)
}
func hookHashBitsSlice(b []byte, offset, width int) (int, error) {
	return builder.VerifHashBitsSlice(b, offset, width)
}
