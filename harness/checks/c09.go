package checks

import (
	"bytes"
	"encoding/json"
	"fmt"
	"math"
	"sort"
	"strings"
	"sync/atomic"
	"time"

	"github.com/gogo/protobuf/proto"
	pb "github.com/ipfs/boxo/ipld/unixfs/pb"
	"github.com/ipfs/go-unixfsnode/data"
	"github.com/ipfs/go-unixfsnode/data/builder"
	"google.golang.org/protobuf/encoding/protowire"

	"verif/harness/core"
)

var _ = time.Now

func init() {
	Registry["C09"] = runC09
	Replayers["C09"] = func(raw []byte) string {
		var c struct {
			Wire string `json:"wire"`
			Kind string `json:"kind"`
		}
		if err := json.Unmarshal(raw, &c); err != nil {
			return "bad case: " + err.Error()
		}
		var b []byte
		fmt.Sscanf(c.Wire, "%x", &b)
		var out []string
		viol := func(sig, detail string) { out = append(out, sig+" :: "+detail) }
		switch c.Kind {
		case "time":
			c09CheckTime(b, viol)
		case "metadata":
			c09CheckMeta(b, viol)
		default:
			c09CheckWire(b, false, viol)
		}
		return joinLines(out)
	}
}

// lmsg is a logical UnixFS Data message (presence-aware).
type lmsg struct {
	Type       int64
	Data       []byte
	HasData    bool
	FileSize   *uint64
	BlockSizes []uint64
	HashType   *uint64
	Fanout     *uint64
	Mode       *uint32
	HasMtime   bool
	Seconds    int64
	Nanos      *uint32
}

func (m lmsg) key() string {
	p64 := func(p *uint64) string {
		if p == nil {
			return "-"
		}
		return fmt.Sprint(*p)
	}
	p32 := func(p *uint32) string {
		if p == nil {
			return "-"
		}
		return fmt.Sprint(*p)
	}
	d := "-"
	if m.HasData {
		d = fmt.Sprintf("%x.", m.Data)
	}
	t := "-"
	if m.HasMtime {
		t = fmt.Sprintf("%d/%s", m.Seconds, p32(m.Nanos))
	}
	return fmt.Sprintf("T%d D%s S%s B%v H%s F%s M%s T%s", m.Type, d, p64(m.FileSize), m.BlockSizes, p64(m.HashType), p64(m.Fanout), p32(m.Mode), t)
}

func (m lmsg) ref() *pb.Data {
	t := pb.Data_DataType(m.Type)
	d := &pb.Data{Type: &t, Filesize: m.FileSize, Blocksizes: m.BlockSizes, HashType: m.HashType, Fanout: m.Fanout, Mode: m.Mode}
	if m.HasData {
		d.Data = m.Data
		if d.Data == nil {
			d.Data = []byte{}
		}
	}
	if m.HasMtime {
		s := m.Seconds
		d.Mtime = &pb.IPFSTimestamp{Seconds: &s, Nanos: m.Nanos}
	}
	return d
}

// canonical is the reference encoder's output.
func (m lmsg) canonical() []byte {
	b, err := proto.Marshal(m.ref())
	if err != nil {
		panic(err)
	}
	return b
}

func fromRef(d *pb.Data) lmsg {
	m := lmsg{Type: int64(d.GetType()), FileSize: d.Filesize, BlockSizes: d.Blocksizes, HashType: d.HashType, Fanout: d.Fanout, Mode: d.Mode}
	if d.Data != nil {
		m.HasData, m.Data = true, d.Data
	}
	if len(m.BlockSizes) == 0 {
		m.BlockSizes = nil
	}
	if d.Mtime != nil {
		m.HasMtime = true
		m.Seconds = d.Mtime.GetSeconds()
		m.Nanos = d.Mtime.Nanos
	}
	return m
}

func fromOurs(n data.UnixFSData) lmsg {
	m := lmsg{Type: n.FieldDataType().Int()}
	if n.FieldData().Exists() {
		m.HasData, m.Data = true, n.FieldData().Must().Bytes()
	}
	if n.FieldFileSize().Exists() {
		m.FileSize = u64p(uint64(n.FieldFileSize().Must().Int()))
	}
	it := n.FieldBlockSizes().Iterator()
	for !it.Done() {
		_, v := it.Next()
		m.BlockSizes = append(m.BlockSizes, uint64(v.Int()))
	}
	if n.FieldHashType().Exists() {
		m.HashType = u64p(uint64(n.FieldHashType().Must().Int()))
	}
	if n.FieldFanout().Exists() {
		m.Fanout = u64p(uint64(n.FieldFanout().Must().Int()))
	}
	if n.FieldMode().Exists() {
		v := uint32(n.FieldMode().Must().Int())
		m.Mode = &v
	}
	if n.FieldMtime().Exists() {
		t := n.FieldMtime().Must()
		m.HasMtime = true
		m.Seconds = t.FieldSeconds().Int()
		if t.FieldFractionalNanoseconds().Exists() {
			v := uint32(t.FieldFractionalNanoseconds().Must().Int())
			m.Nanos = &v
		}
	}
	return m
}

func defaultMode(t int64) (uint32, bool) {
	switch t {
	case 2:
		return 0o644, true
	case 1, 5:
		return 0o755, true
	}
	return 0, false
}

func wantPermissions(m lmsg) int {
	if m.Mode != nil {
		return int(*m.Mode & 0xFFF)
	}
	d, _ := defaultMode(m.Type)
	return int(d)
}

// elide drops a mode equal to the type's default (what the encoder omits).
func elide(m lmsg) lmsg {
	if m.Mode != nil {
		if d, ok := defaultMode(m.Type); ok && *m.Mode == d {
			m.Mode = nil
		} else if !ok && *m.Mode == 0 {
			m.Mode = nil // DefaultPermissions of other types is 0
		}
	}
	return m
}

// c09CheckWire applies all oracles to one wire presentation of a Data message.
func c09CheckWire(p []byte, canonical bool, viol func(sig, detail string)) {
	var rd pb.Data
	if err := proto.Unmarshal(p, &rd); err != nil {
		return // the reference rejects it: no obligation
	}
	want := fromRef(&rd)
	var n data.UnixFSData
	var err error
	if pnk, pv := core.Guard(func() { n, err = data.DecodeUnixFSData(p) }); pnk {
		viol("panic decode", fmt.Sprintf("wire %x: %v", p, pv))
		return
	}
	if err != nil {
		viol("decode-rejects-valid", fmt.Sprintf("wire %x (%s): reference decodes it, DecodeUnixFSData: %v", p, want.key(), err))
		return
	}
	got := fromOurs(n)
	if got.key() != want.key() {
		viol("decode-differs", fmt.Sprintf("wire %x: decoded %s, reference %s", p, got.key(), want.key()))
		return
	}
	if perm := n.Permissions(); perm != wantPermissions(want) {
		viol("permissions", fmt.Sprintf("wire %x (%s): Permissions()=%o want %o", p, want.key(), perm, wantPermissions(want)))
	}
	enc := data.EncodeUnixFSData(n)
	var rd2 pb.Data
	if err := proto.Unmarshal(enc, &rd2); err != nil {
		viol("reference-rejects-encoded", fmt.Sprintf("message %s: EncodeUnixFSData gives %x: %v", want.key(), enc, err))
		return
	}
	if back := fromRef(&rd2); back.key() != elide(want).key() {
		viol("encode-differs", fmt.Sprintf("message %s encodes to %x which the reference reads as %s", want.key(), enc, back.key()))
	}
	if n2, err := data.DecodeUnixFSData(enc); err != nil {
		viol("reencode-undecodable", fmt.Sprintf("message %s: %v", want.key(), err))
	} else if n2.Permissions() != wantPermissions(want) {
		viol("permissions-roundtrip", fmt.Sprintf("message %s: Permissions() after a round trip = %o want %o", want.key(), n2.Permissions(), wantPermissions(want)))
	}
	if canonical && elide(want).key() == want.key() && !bytes.Equal(enc, p) {
		viol("canonical-reencode", fmt.Sprintf("message %s: canonical %x re-encodes to %x", want.key(), p, enc))
	}
}

func c09CheckTime(p []byte, viol func(sig, detail string)) {
	var rt pb.IPFSTimestamp
	if err := proto.Unmarshal(p, &rt); err != nil {
		return
	}
	var n data.UnixTime
	var err error
	if pnk, pv := core.Guard(func() { n, err = data.DecodeUnixTime(p) }); pnk {
		viol("panic decode-time", fmt.Sprintf("wire %x: %v", p, pv))
		return
	}
	if err != nil {
		viol("time-decode-rejects-valid", fmt.Sprintf("wire %x: %v", p, err))
		return
	}
	if n.FieldSeconds().Int() != rt.GetSeconds() {
		viol("time-seconds", fmt.Sprintf("wire %x: %d vs %d", p, n.FieldSeconds().Int(), rt.GetSeconds()))
	}
	if n.FieldFractionalNanoseconds().Exists() != (rt.Nanos != nil) ||
		(rt.Nanos != nil && uint32(n.FieldFractionalNanoseconds().Must().Int()) != *rt.Nanos) {
		viol("time-nanos", fmt.Sprintf("wire %x", p))
	}
	enc := data.AppendEncodeUnixTime(nil, n)
	var rt2 pb.IPFSTimestamp
	if err := proto.Unmarshal(enc, &rt2); err != nil || rt2.GetSeconds() != rt.GetSeconds() || (rt2.Nanos == nil) != (rt.Nanos == nil) ||
		(rt.Nanos != nil && *rt2.Nanos != *rt.Nanos) {
		viol("time-encode-differs", fmt.Sprintf("wire %x re-encoded %x: err=%v", p, enc, err))
	}
}

func c09CheckMeta(p []byte, viol func(sig, detail string)) {
	var rm pb.Metadata
	if err := proto.Unmarshal(p, &rm); err != nil {
		return
	}
	var n data.UnixFSMetadata
	var err error
	if pnk, pv := core.Guard(func() { n, err = data.DecodeUnixFSMetadata(p) }); pnk {
		viol("panic decode-metadata", fmt.Sprintf("wire %x: %v", p, pv))
		return
	}
	if err != nil {
		viol("metadata-decode-rejects-valid", fmt.Sprintf("wire %x: %v", p, err))
		return
	}
	if n.FieldMimeType().Exists() != (rm.MimeType != nil) || (rm.MimeType != nil && n.FieldMimeType().Must().String() != *rm.MimeType) {
		viol("metadata-mimetype", fmt.Sprintf("wire %x", p))
	}
	enc := data.EncodeUnixFSMetadata(n)
	var rm2 pb.Metadata
	if err := proto.Unmarshal(enc, &rm2); err != nil || (rm2.MimeType == nil) != (rm.MimeType == nil) || (rm.MimeType != nil && *rm2.MimeType != *rm.MimeType) {
		viol("metadata-encode-differs", fmt.Sprintf("wire %x re-encoded %x: err=%v", p, enc, err))
	}
}

// ---------------------------------------------------------------------------
// enumeration of logical messages

type c09Dims struct {
	types  []int64
	datas  []*[]byte
	fsizes []*uint64
	bsizes [][]uint64
	hashes []*uint64
	fans   []*uint64
	modes  []*uint32
	mtimes []*[2]any
}

func u32p(v uint32) *uint32 { return &v }

func c09Space() (dims []int, build func(idx []int) lmsg) {
	types := []int64{0, 1, 2, 3, 4, 5}
	empty, x := []byte{}, []byte("x")
	datas := []*[]byte{nil, &empty, &x}
	fsizes := []*uint64{nil, u64p(0), u64p(1), u64p(1 << 31), u64p(1<<32 - 1), u64p(1 << 63), u64p(math.MaxUint64)}
	bsizes := [][]uint64{nil, {0}, {1, math.MaxUint64}, {5, 6, 7}}
	hashes := []*uint64{nil, u64p(0), u64p(0x22), u64p(math.MaxUint64)}
	fans := []*uint64{nil, u64p(0), u64p(256), u64p(math.MaxUint64)}
	modes := []*uint32{nil, u32p(0), u32p(0o644), u32p(0o755), u32p(0o100644), u32p(math.MaxUint32)}
	type mt struct {
		has bool
		sec int64
		ns  *uint32
	}
	mtimes := []mt{{}, {true, 0, nil}, {true, -1, nil}, {true, math.MaxInt64, u32p(0)}, {true, 1, u32p(999999999)}, {true, math.MinInt64, u32p(1)}}
	dims = []int{len(types), len(datas), len(fsizes), len(bsizes), len(hashes), len(fans), len(modes), len(mtimes)}
	build = func(i []int) lmsg {
		m := lmsg{Type: types[i[0]], FileSize: fsizes[i[2]], BlockSizes: bsizes[i[3]], HashType: hashes[i[4]], Fanout: fans[i[5]], Mode: modes[i[6]]}
		if d := datas[i[1]]; d != nil {
			m.HasData, m.Data = true, *d
		}
		t := mtimes[i[7]]
		m.HasMtime, m.Seconds, m.Nanos = t.has, t.sec, t.ns
		return m
	}
	return
}

func c09Index(dims []int, n int) []int {
	idx := make([]int, len(dims))
	for k := len(dims) - 1; k >= 0; k-- {
		idx[k] = n % dims[k]
		n /= dims[k]
	}
	return idx
}

func c09Total(dims []int) int {
	t := 1
	for _, d := range dims {
		t *= d
	}
	return t
}

// c09Corpus is the representative subset (every value of every field occurs):
// a stride through the full product that is coprime with every dimension.
func c09Corpus(small bool) []lmsg {
	dims, build := c09Space()
	total := c09Total(dims)
	stride := 145
	if small {
		stride = 2903
	}
	var out []lmsg
	for n := 0; n < total; n += stride {
		out = append(out, build(c09Index(dims, n)))
	}
	return out
}

// ---------------------------------------------------------------------------
// wire presentations

type wfield struct {
	num protowire.Number
	typ protowire.Type
	raw []byte // tag + value
}

func splitFields(p []byte) []wfield {
	var out []wfield
	for len(p) > 0 {
		num, typ, n := protowire.ConsumeTag(p)
		if n < 0 {
			panic("bad canonical encoding")
		}
		m := protowire.ConsumeFieldValue(num, typ, p[n:])
		if m < 0 {
			panic("bad canonical encoding")
		}
		out = append(out, wfield{num, typ, append([]byte{}, p[:n+m]...)})
		p = p[n+m:]
	}
	return out
}

func joinFields(fs []wfield) []byte {
	var out []byte
	for _, f := range fs {
		out = append(out, f.raw...)
	}
	return out
}

// deviation is a function from a field list to a new field list.
type deviation struct {
	label string
	apply func(fs []wfield) []wfield
}

func unknownFields() []wfield {
	var out []wfield
	for _, num := range []protowire.Number{9, 15, 16, 2047} {
		out = append(out,
			wfield{num, protowire.VarintType, protowire.AppendVarint(protowire.AppendTag(nil, num, protowire.VarintType), 300)},
			wfield{num, protowire.Fixed32Type, protowire.AppendFixed32(protowire.AppendTag(nil, num, protowire.Fixed32Type), 7)},
			wfield{num, protowire.Fixed64Type, protowire.AppendFixed64(protowire.AppendTag(nil, num, protowire.Fixed64Type), 7)},
			wfield{num, protowire.BytesType, protowire.AppendBytes(protowire.AppendTag(nil, num, protowire.BytesType), []byte{0x08, 0x01})},
		)
	}
	// unknown fields of the (deprecated, still legal) group wire type: empty, with
	// one varint field inside, nested
	for _, num := range []protowire.Number{9, 2047} {
		empty := protowire.AppendTag(protowire.AppendTag(nil, num, protowire.StartGroupType), num, protowire.EndGroupType)
		one := protowire.AppendTag(nil, num, protowire.StartGroupType)
		one = protowire.AppendVarint(protowire.AppendTag(one, 1, protowire.VarintType), 5)
		one = protowire.AppendTag(one, num, protowire.EndGroupType)
		nested := protowire.AppendTag(nil, num, protowire.StartGroupType)
		nested = append(nested, protowire.AppendTag(protowire.AppendTag(nil, 3, protowire.StartGroupType), 3, protowire.EndGroupType)...)
		nested = protowire.AppendTag(nested, num, protowire.EndGroupType)
		out = append(out, wfield{num, protowire.StartGroupType, empty}, wfield{num, protowire.StartGroupType, one}, wfield{num, protowire.StartGroupType, nested})
	}
	return out
}

func nonMinimal(f wfield) (wfield, bool) {
	if f.typ != protowire.VarintType {
		return f, false
	}
	_, _, n := protowire.ConsumeTag(f.raw)
	v := f.raw[n:]
	if len(v) >= 10 {
		return f, false
	}
	nv := append([]byte{}, v...)
	nv[len(nv)-1] |= 0x80
	nv = append(nv, 0x00)
	return wfield{f.num, f.typ, append(append([]byte{}, f.raw[:n]...), nv...)}, true
}

// padVarint re-encodes a varint field with continuation padding up to `width`
// bytes (same value: protobuf decoders accept over-long varints up to 10 bytes).
func padVarint(f wfield, width int) (wfield, bool) {
	if f.typ != protowire.VarintType {
		return f, false
	}
	_, _, n := protowire.ConsumeTag(f.raw)
	v := f.raw[n:]
	if len(v) >= width {
		return f, false
	}
	if width == 10 {
		// the 10th byte carries one payload bit only: values needing bit 63 are
		// already 10 bytes long; padding with zeros keeps every shorter value
	}
	nv := append([]byte{}, v...)
	nv[len(nv)-1] |= 0x80
	for len(nv) < width-1 {
		nv = append(nv, 0x80)
	}
	nv = append(nv, 0x00)
	return wfield{f.num, f.typ, append(append([]byte{}, f.raw[:n]...), nv...)}, true
}

// deviationsFor lists the single deviations applicable to a field list.
func deviationsFor(fs []wfield) []deviation {
	var out []deviation
	n := len(fs)
	for i := 0; i < n; i++ {
		for j := i + 1; j < n; j++ {
			i, j := i, j
			out = append(out, deviation{fmt.Sprintf("swap(%d,%d)", i, j), func(fs []wfield) []wfield {
				if j >= len(fs) {
					return nil
				}
				o := append([]wfield{}, fs...)
				o[i], o[j] = o[j], o[i]
				return o
			}})
		}
	}
	out = append(out, deviation{"pack-blocksizes", func(fs []wfield) []wfield {
		var packed []byte
		first := -1
		var o []wfield
		for _, f := range fs {
			if f.num == 4 && f.typ == protowire.VarintType {
				_, _, n := protowire.ConsumeTag(f.raw)
				packed = append(packed, f.raw[n:]...)
				if first < 0 {
					first = len(o)
					o = append(o, wfield{})
				}
				continue
			}
			o = append(o, f)
		}
		if first < 0 {
			return nil
		}
		o[first] = wfield{4, protowire.BytesType, protowire.AppendBytes(protowire.AppendTag(nil, 4, protowire.BytesType), packed)}
		return o
	}})
	for ui, u := range unknownFields() {
		for pos := 0; pos <= n; pos++ {
			u, pos := u, pos
			out = append(out, deviation{fmt.Sprintf("unknown#%d@%d", ui, pos), func(fs []wfield) []wfield {
				if pos > len(fs) {
					return nil
				}
				o := append([]wfield{}, fs[:pos]...)
				o = append(o, u)
				return append(o, fs[pos:]...)
			}})
		}
	}
	// varints padded to 6 and to the maximal 10 bytes (a decoder that bounds the
	// encoded width of a field instead of its value rejects these)
	for i := 0; i < n; i++ {
		for _, width := range []int{6, 10} {
			i, width := i, width
			if width == 10 && fs[i].num != 1 && fs[i].num != 7 {
				continue // the maximal width on DataType and Mode only (cost)
			}
			if _, ok := padVarint(fs[i], width); ok {
				out = append(out, deviation{fmt.Sprintf("padded%d(%d)", width, i), func(fs []wfield) []wfield {
					if i >= len(fs) {
						return nil
					}
					nf, ok := padVarint(fs[i], width)
					if !ok {
						return nil
					}
					o := append([]wfield{}, fs...)
					o[i] = nf
					return o
				}})
			}
		}
	}
	// the field's *tag* written as an over-long varint (2, 3 and 5 bytes): still
	// the same field number and wire type to every protobuf decoder
	for i := 0; i < n; i++ {
		for _, width := range []int{2, 3, 5} {
			i, width := i, width
			if width > 2 && fs[i].num != 1 && fs[i].num != 3 && fs[i].num != 7 {
				continue // the wider spellings on DataType, FileSize and Mode only (cost)
			}
			out = append(out, deviation{fmt.Sprintf("padtag%d(%d)", width, i), func(fs []wfield) []wfield {
				if i >= len(fs) {
					return nil
				}
				_, _, tn := protowire.ConsumeTag(fs[i].raw)
				if tn < 0 || tn >= width {
					return nil
				}
				tag := append([]byte{}, fs[i].raw[:tn]...)
				tag[len(tag)-1] |= 0x80
				for len(tag) < width-1 {
					tag = append(tag, 0x80)
				}
				tag = append(tag, 0x00)
				o := append([]wfield{}, fs...)
				o[i] = wfield{fs[i].num, fs[i].typ, append(tag, fs[i].raw[tn:]...)}
				return o
			}})
		}
	}
	for i := 0; i < n; i++ {
		i := i
		if _, ok := nonMinimal(fs[i]); ok {
			out = append(out, deviation{fmt.Sprintf("nonminimal(%d)", i), func(fs []wfield) []wfield {
				if i >= len(fs) {
					return nil
				}
				nf, ok := nonMinimal(fs[i])
				if !ok {
					return nil
				}
				o := append([]wfield{}, fs...)
				o[i] = nf
				return o
			}})
		}
	}
	// an unknown field inside the nested timestamp, and a reordered timestamp
	for i := 0; i < n; i++ {
		if fs[i].num == 8 && fs[i].typ == protowire.BytesType {
			i := i
			out = append(out, deviation{"mtime-inner-reorder-unknown", func(fs []wfield) []wfield {
				if i >= len(fs) || fs[i].num != 8 {
					return nil
				}
				_, _, tn := protowire.ConsumeTag(fs[i].raw)
				inner, _ := protowire.ConsumeBytes(fs[i].raw[tn:])
				ifs := splitFields(inner)
				for a, b := 0, len(ifs)-1; a < b; a, b = a+1, b-1 {
					ifs[a], ifs[b] = ifs[b], ifs[a]
				}
				ifs = append(ifs, unknownFields()[3])
				o := append([]wfield{}, fs...)
				o[i] = wfield{8, protowire.BytesType, protowire.AppendBytes(protowire.AppendTag(nil, 8, protowire.BytesType), joinFields(ifs))}
				return o
			}})
		}
	}
	// unknown fields of every wire type (1- and 2-byte tags) inside the nested
	// timestamp, before and after its known fields
	for i := 0; i < n; i++ {
		if fs[i].num != 8 || fs[i].typ != protowire.BytesType {
			continue
		}
		for _, ui := range []int{1, 6, 8, 15} {
			for _, atEnd := range []bool{false, true} {
				i, ui, atEnd := i, ui, atEnd
				out = append(out, deviation{fmt.Sprintf("mtime-inner-unknown#%d-end=%v", ui, atEnd), func(fs []wfield) []wfield {
					if i >= len(fs) || fs[i].num != 8 {
						return nil
					}
					_, _, tn := protowire.ConsumeTag(fs[i].raw)
					inner, _ := protowire.ConsumeBytes(fs[i].raw[tn:])
					ifs := splitFields(inner)
					if atEnd {
						ifs = append(ifs, unknownFields()[ui])
					} else {
						ifs = append([]wfield{unknownFields()[ui]}, ifs...)
					}
					o := append([]wfield{}, fs...)
					o[i] = wfield{8, protowire.BytesType, protowire.AppendBytes(protowire.AppendTag(nil, 8, protowire.BytesType), joinFields(ifs))}
					return o
				}})
			}
		}
	}
	return out
}

func permutations(n int, f func(p []int)) {
	p := make([]int, n)
	for i := range p {
		p[i] = i
	}
	var rec func(k int)
	rec = func(k int) {
		if k == n {
			f(p)
			return
		}
		for i := k; i < n; i++ {
			p[k], p[i] = p[i], p[k]
			rec(k + 1)
			p[k], p[i] = p[i], p[k]
		}
	}
	rec(0)
}

func runC09(r *core.Run) {
	r.Rule("bounded-exhaustive: the full product of logical messages (6 types x 3 data x 7 file sizes x 4 block-size lists x 4 hash types x 4 fanouts x 6 modes x 6 mtimes = 290304) in canonical form; wire presentations = every sequence of <= 1 (all corpus messages) and <= 2 (quick: every 20th corpus message; thorough: all) deviations {field transposition, packed block sizes, unknown field of 4 numbers x 4 wire types at every position, non-minimal varint, over-long tag varint, reordered timestamp with unknown field} and all permutations for messages with <= 5 fields; oracle = gogo-protobuf codec of boxo's unixfs.proto (decode equality, reference decodes our encoding, canonical re-encode byte equality, permission bits); same for IPFSTimestamp and Metadata alone; plus messages constructed through the builder API")
	dims, build := c09Space()
	total := c09Total(dims)
	// 1. full product, canonical presentation
	chunks := 64
	core.ParallelFor(chunks, workers, func(ci int) {
		for n := ci; n < total; n += chunks {
			m := build(c09Index(dims, n))
			p := m.canonical()
			c09CheckWire(p, true, func(sig, detail string) {
				r.Violate(sig+" canonical", detail, map[string]any{"wire": fmt.Sprintf("%x", p), "kind": "data"})
			})
			r.Evaluations.Add(1)
			r.Transitions.Add(3)
		}
	})
	r.States.Add(int64(total))
	r.Set("logical_messages", total)

	// 2. presentations over the corpus
	corpus := c09Corpus(false)
	r.Set("corpus_messages", len(corpus))
	var programs, perms int64Counter
	core.ParallelFor(len(corpus), workers, func(ci int) {
		m := corpus[ci]
		fs := splitFields(m.canonical())
		check := func(label string, p []byte) {
			programs.add(1)
			r.Transitions.Add(1)
			c09CheckWire(p, false, func(sig, detail string) {
				r.Violate(sig+" "+devClass(label), "["+label+"] "+detail, map[string]any{"wire": fmt.Sprintf("%x", p), "kind": "data", "deviations": label})
			})
			if ci%500 == 0 && label != "" && programs.n%97 == 0 {
				r.Sample(map[string]any{"message": m.key(), "deviations": label, "wire": fmt.Sprintf("%x", p)})
			}
		}
		if len(fs) <= 5 {
			permutations(len(fs), func(p []int) {
				o := make([]wfield, len(fs))
				for i, j := range p {
					o[i] = fs[j]
				}
				perms.add(1)
				check("perm", joinFields(o))
			})
		}
		devs := deviationsFor(fs)
		two := !r.Quick() || ci%20 == 0
		for i, d1 := range devs {
			f1 := d1.apply(fs)
			if f1 == nil {
				continue
			}
			check(d1.label, joinFields(f1))
			if !two {
				continue
			}
			for _, d2 := range deviationsFor(f1)[0:] {
				_ = i
				f2 := d2.apply(f1)
				if f2 == nil {
					continue
				}
				check(d1.label+"+"+d2.label, joinFields(f2))
			}
		}
		r.Distinct(m.key())
	})
	r.Evaluations.Add(programs.n)
	r.Set("wire_presentations", programs.n)
	r.Set("full_permutations", perms.n)

	// 3. timestamp and metadata messages alone
	secs := []int64{0, 1, -1, math.MaxInt64, math.MinInt64, 1 << 31}
	nanos := []*uint32{nil, u32p(0), u32p(1), u32p(999999999), u32p(math.MaxUint32)}
	for _, s := range secs {
		for _, ns := range nanos {
			s := s
			b, _ := proto.Marshal(&pb.IPFSTimestamp{Seconds: &s, Nanos: ns})
			fs := splitFields(b)
			pres := [][]byte{b}
			for _, d := range deviationsFor(fs) {
				if f := d.apply(fs); f != nil {
					pres = append(pres, joinFields(f))
				}
			}
			for _, p := range pres {
				p := p
				c09CheckTime(p, func(sig, detail string) {
					r.Violate(sig, detail, map[string]any{"wire": fmt.Sprintf("%x", p), "kind": "time"})
				})
				r.Evaluations.Add(1)
			}
		}
	}
	for _, mt := range []*string{nil, strp(""), strp("text/plain"), strp("téxt/ü")} {
		b, _ := proto.Marshal(&pb.Metadata{MimeType: mt})
		fs := splitFields(b)
		pres := [][]byte{b}
		for _, d := range deviationsFor(fs) {
			if f := d.apply(fs); f != nil {
				pres = append(pres, joinFields(f))
			}
		}
		for _, p := range pres {
			p := p
			c09CheckMeta(p, func(sig, detail string) {
				r.Violate(sig, detail, map[string]any{"wire": fmt.Sprintf("%x", p), "kind": "metadata"})
			})
			r.Evaluations.Add(1)
		}
	}

	// 4. messages constructed through the builder API
	for _, m := range corpus {
		m := m
		if m.Mode != nil && *m.Mode > 0xFFF {
			continue // the builder masks the mode to 12 bits by design
		}
		if m.Nanos != nil && *m.Nanos > 999999999 {
			continue
		}
		var n data.UnixFSData
		var err error
		if pnk, pv := core.Guard(func() {
			n, err = builder.BuildUnixFS(func(b *builder.Builder) {
				builder.DataType(b, m.Type)
				if m.HasData {
					builder.Data(b, m.Data)
				}
				if m.FileSize != nil {
					builder.FileSize(b, *m.FileSize)
				}
				if m.BlockSizes != nil {
					builder.BlockSizes(b, m.BlockSizes)
				}
				if m.HashType != nil {
					builder.HashType(b, *m.HashType)
				}
				if m.Fanout != nil {
					builder.Fanout(b, *m.Fanout)
				}
				if m.Mode != nil {
					builder.Permissions(b, int(*m.Mode))
				}
				if m.HasMtime {
					builder.Mtime(b, func(tb builder.TimeBuilder) {
						builder.Seconds(tb, m.Seconds)
						if m.Nanos != nil {
							builder.FractionalNanoseconds(tb, int32(*m.Nanos))
						}
					})
				}
			})
		}); pnk {
			r.Violate("builder-panic", fmt.Sprintf("%s: %v", m.key(), pv), nil)
			continue
		}
		r.Evaluations.Add(1)
		if err != nil {
			r.Violate("builder-error", fmt.Sprintf("%s: %v", m.key(), err), nil)
			continue
		}
		enc := data.EncodeUnixFSData(n)
		var rd pb.Data
		if err := proto.Unmarshal(enc, &rd); err != nil {
			r.Violate("reference-rejects-built", fmt.Sprintf("%s: %x: %v", m.key(), enc, err), nil)
			continue
		}
		if got := fromRef(&rd); got.key() != elide(m).key() {
			r.Violate("built-message-differs", fmt.Sprintf("built %s, reference reads %s from %x", m.key(), got.key(), enc), nil)
		}
		if n.Permissions() != wantPermissions(m) {
			r.Violate("built-permissions", fmt.Sprintf("%s: %o", m.key(), n.Permissions()), nil)
		}
	}
	c09SizeSweep(r)
	c09BuilderRoutes(r)
}

// c09BuilderRoutes: the alternative helper routes of the builder API produce the
// same message as the primitive ones: PermissionsString (octal with a leading
// 0, decimal otherwise) vs Permissions, Time(time.Time) vs Seconds +
// FractionalNanoseconds.
// c09SizeSweep: every payload length around whatever scratch-buffer sizes an
// encoder might use (0..4300 bytes of Data, 0..560 block sizes), with each of
// the fields that follow the payload on the wire present: the encoding of a
// field must not depend on where in the output buffer it lands.
func c09SizeSweep(r *core.Run) {
	type tail struct {
		name string
		set  func(m *lmsg)
	}
	tails := []tail{
		{"none", func(m *lmsg) {}},
		{"mtime-secs", func(m *lmsg) { m.HasMtime, m.Seconds = true, 5 }},
		{"mtime-neg-nanos", func(m *lmsg) { m.HasMtime, m.Seconds, m.Nanos = true, -1234567890123, u32p(999999999) }},
		{"mode-mtime", func(m *lmsg) { m.Mode, m.HasMtime, m.Seconds, m.Nanos = u32p(0o755), true, 1700000000, u32p(1) }},
		{"hash-fanout", func(m *lmsg) { m.HashType, m.Fanout = u64p(0x22), u64p(256) }},
		{"filesize-mode", func(m *lmsg) { m.FileSize, m.Mode = u64p(1<<40), u32p(0o600) }},
	}
	maxData, maxBS := 4300, 560
	if r.Quick() {
		maxData, maxBS = 2200, 280
	}
	n := int64(0)
	core.ParallelFor(maxData+1+maxBS+1, workers, func(i int) {
		for ti, tl := range tails {
			var m lmsg
			if i <= maxData {
				m = lmsg{Type: 2, HasData: true, Data: bytes.Repeat([]byte{byte(i), 0xA5}, i/2+1)[:i]}
			} else {
				k := i - maxData - 1
				bs := make([]uint64, k)
				for j := range bs {
					bs[j] = uint64(1)<<uint(7*(j%9)) + uint64(j)
				}
				m = lmsg{Type: 2, FileSize: u64p(uint64(k)), BlockSizes: bs}
			}
			tl.set(&m)
			p := m.canonical()
			c09CheckWire(p, true, func(sig, detail string) {
				if len(detail) > 400 {
					detail = detail[:400] + "…"
				}
				r.Violate(sig+" size-sweep "+tl.name, fmt.Sprintf("payload #%d (%d wire bytes), tail %s: %s", i, len(p), tl.name, detail), map[string]any{"wire": fmt.Sprintf("%x", p), "kind": "data"})
			})
			_ = ti
			atomic.AddInt64(&n, 1)
			// the same block sizes as ONE packed run (legal protobuf for a
			// repeated varint field, whatever the number of entries)
			if len(m.BlockSizes) > 0 {
				m2 := m
				m2.BlockSizes = nil
				var run []byte
				for _, v := range m.BlockSizes {
					run = protowire.AppendVarint(run, v)
				}
				p2 := protowire.AppendBytes(protowire.AppendTag(m2.canonical(), 4, protowire.BytesType), run)
				c09CheckWire(p2, false, func(sig, detail string) {
					if len(detail) > 400 {
						detail = detail[:400] + "…"
					}
					r.Violate(sig+" size-sweep packed "+tl.name, fmt.Sprintf("%d block sizes in one packed run (%d wire bytes), tail %s: %s", len(m.BlockSizes), len(p2), tl.name, detail), map[string]any{"wire": fmt.Sprintf("%x", p2), "kind": "data"})
				})
				atomic.AddInt64(&n, 1)
			}
		}
	})
	r.Evaluations.Add(n)
	r.Transitions.Add(3 * n)
	r.Set("size_sweep_messages", n)
}

func c09BuilderRoutes(r *core.Run) {
	build := func(f func(b *builder.Builder)) (string, string) {
		var n data.UnixFSData
		var err error
		if pnk, pv := core.Guard(func() {
			n, err = builder.BuildUnixFS(func(b *builder.Builder) { builder.DataType(b, 2); f(b) })
		}); pnk {
			return "", fmt.Sprintf("panic: %v", pv)
		}
		if err != nil {
			return "", "error: " + err.Error()
		}
		return fmt.Sprintf("%x", data.EncodeUnixFSData(n)), ""
	}
	for mode := 0; mode <= 0xFFF; mode++ {
		mode := mode
		want, werr := build(func(b *builder.Builder) { builder.Permissions(b, mode) })
		strs := []string{fmt.Sprintf("0%o", mode), fmt.Sprintf("00%o", mode)}
		if mode != 0 {
			strs = append(strs, fmt.Sprintf("%d", mode))
		}
		for _, ms := range strs {
			ms := ms
			got, gerr := build(func(b *builder.Builder) { builder.PermissionsString(b, ms) })
			r.Evaluations.Add(1)
			if got != want || gerr != werr {
				r.Violate("builder-route permissions-string", fmt.Sprintf("PermissionsString(%q) builds %s %s, Permissions(%#o) builds %s %s", ms, got, gerr, mode, want, werr), nil)
			}
		}
	}
	for _, sec := range []int64{0, 1, -1, 1 << 31, 1700000000, math.MinInt64 / 4} {
		for _, ns := range []int32{0, 1, 999999999, 500000000} {
			sec, ns := sec, ns
			want, werr := build(func(b *builder.Builder) {
				builder.Mtime(b, func(tb builder.TimeBuilder) { builder.Seconds(tb, sec); builder.FractionalNanoseconds(tb, ns) })
			})
			got, gerr := build(func(b *builder.Builder) {
				builder.Mtime(b, func(tb builder.TimeBuilder) { builder.Time(tb, time.Unix(sec, int64(ns))) })
			})
			r.Evaluations.Add(1)
			if got != want || gerr != werr {
				r.Violate("builder-route time", fmt.Sprintf("Time(Unix(%d,%d)) builds %s %s, Seconds+FractionalNanoseconds builds %s %s", sec, ns, got, gerr, want, werr), nil)
			}
		}
	}
}

func strp(s string) *string { return &s }

// devClass reduces a deviation label to its class for violation signatures.
func devClass(label string) string {
	parts := strings.Split(label, "+")
	for i, p := range parts {
		if k := strings.IndexAny(p, "(#@"); k >= 0 {
			parts[i] = p[:k]
		}
	}
	sort.Strings(parts)
	return strings.Join(parts, "+")
}

type int64Counter struct{ n int64 }

func (c *int64Counter) add(d int64) { atomic.AddInt64(&c.n, d) }
