package checks

import (
	"bytes"
	"crypto/sha256"
	"encoding/json"
	"fmt"
	"io"
	"math"
	"sync"

	"github.com/ipfs/go-cid"
	"github.com/ipld/go-ipld-prime/datamodel"

	"verif/harness/core"
	"verif/harness/gen"
	"verif/harness/store"
)

func init() {
	Registry["C04"] = runC04
	Replayers["C04"] = func(raw []byte) string {
		var c c04Replay
		if err := json.Unmarshal(raw, &c); err != nil {
			return "bad case: " + err.Error()
		}
		f, ok := c04FileByLabel(c.File)
		if !ok {
			return "unknown file " + c.File
		}
		out := ""
		_, msg := c04Run(f, c.Mode, c.History)
		if msg != "" {
			out = msg + "\n"
		}
		return out
	}
}

// rsop is one operation of the alphabet, tagged with the reader it goes to.
type rsop struct {
	R      int    `json:"r"`
	Kind   string `json:"op"` // read | seek
	A      int64  `json:"a"`
	Whence int    `json:"whence,omitempty"`
}

func (o rsop) String() string {
	if o.Kind == "read" {
		return fmt.Sprintf("r%d.Read(%d)", o.R, o.A)
	}
	return fmt.Sprintf("r%d.Seek(%d,%s)", o.R, o.A, []string{"Start", "Current", "End"}[o.Whence])
}

type c04Replay struct {
	File    string `json:"file"`
	Mode    string `json:"mode"` // single | same-node | two-nodes
	History []rsop `json:"history"`
}

type c04File struct {
	Label string
	Case  fileCase
	Chunk int
	// Hand: label of a hand-written DAG (gen.HandFamily) instead of Case
	Hand string
}

func c04Files(quick bool) []c04File {
	var out []c04File
	add := func(label string, c fileCase) { out = append(out, c04File{Label: label, Case: c, Chunk: c.K}) }
	for _, L := range []int{0, 1, 3, 7, 12, 13} {
		add(fmt.Sprintf("ours-w2-L%d", L), fileCase{Writer: "ours", W: 2, Chunker: "size-3", L: L, K: 3, Pattern: "distinct"})
	}
	add("wrapped-single-pb-L2", fileCase{Writer: "balanced/raw=false/v1=true", W: 2, Chunker: "size-3", L: 2, K: 3, Pattern: "distinct"})
	add("wrapped-empty-pb", fileCase{Writer: "balanced/raw=false/v1=false", W: 2, Chunker: "size-3", L: 0, K: 3, Pattern: "distinct"})
	add("ref-pbleaves-L8", fileCase{Writer: "balanced/raw=false/v1=false", W: 2, Chunker: "size-3", L: 8, K: 3, Pattern: "distinct"})
	add("ref-trickle-L10", fileCase{Writer: "trickle/raw=true/v1=true", W: 2, Chunker: "size-3", L: 10, K: 3, Pattern: "equal"})
	// hand-written encodings: interior nodes without BlockSizes over dag-pb
	// children (the reader measures children by opening them), and equal chunks
	// ... and a file whose every second dag-pb leaf is inlined in its link
	// (identity-multihash CID), one with Raw-typed interior nodes
	for _, h := range []string{"hand 2x2 leaves=pbfile blocksizes=none filesize=true", "hand 3 leaves=pbraw blocksizes=none filesize=false",
		"hand 3 leaves=pbfile blocksizes=all filesize=true inline=odd", "hand 2x2 leaves=raw blocksizes=all filesize=true nodetype=raw"} {
		if spec, ok := gen.HandByLabel(h); ok {
			_, content := spec.Build(store.New())
			out = append(out, c04File{Label: h, Case: fileCase{L: len(content), K: 3}, Chunk: 3, Hand: h})
		}
	}
	add("ours-w2-equal-L9", fileCase{Writer: "ours", W: 2, Chunker: "size-3", L: 9, K: 3, Pattern: "equal"})
	if !quick {
		add("ours-w3-L20", fileCase{Writer: "ours", W: 3, Chunker: "size-2", L: 20, K: 2, Pattern: "distinct"})
		add("ours-w2-equal-L12", fileCase{Writer: "ours", W: 2, Chunker: "size-3", L: 12, K: 3, Pattern: "equal"})
		add("ref-trickle-pb-L14", fileCase{Writer: "trickle/raw=false/v1=false", W: 2, Chunker: "size-3", L: 14, K: 3, Pattern: "distinct"})
	}
	return out
}

func c04FileByLabel(l string) (c04File, bool) {
	for _, f := range c04Files(false) {
		if f.Label == l {
			return f, true
		}
	}
	return c04File{}, false
}

func c04Alphabet(L, chunk int, readers int) []rsop {
	var ops []rsop
	set := func(vals []int64) []int64 {
		seen := map[int64]bool{}
		var out []int64
		for _, v := range vals {
			if !seen[v] {
				seen[v] = true
				out = append(out, v)
			}
		}
		return out
	}
	l := int64(L)
	ck := int64(chunk)
	// incl. the extreme offsets: the most negative one (its negation overflows)
	// and the largest (a relative seek from there wraps around)
	starts := []int64{-1, 0, 1, l - 1, l, l + 1, math.MinInt64, math.MaxInt64}
	for b := ck; b < l; b += ck {
		starts = append(starts, b-1, b, b+1)
	}
	for r := 0; r < readers; r++ {
		for _, k := range set([]int64{0, 1, 2, ck, l + 1}) {
			ops = append(ops, rsop{R: r, Kind: "read", A: k})
		}
		for _, o := range set(starts) {
			ops = append(ops, rsop{R: r, Kind: "seek", A: o, Whence: io.SeekStart})
		}
		for _, d := range set([]int64{-(l + 1), -1, 0, 1, ck, math.MinInt64, math.MaxInt64}) {
			ops = append(ops, rsop{R: r, Kind: "seek", A: d, Whence: io.SeekCurrent})
		}
		for _, o := range set([]int64{-(l + 1), -l, -1, 0, 1, math.MinInt64, math.MaxInt64}) {
			ops = append(ops, rsop{R: r, Kind: "seek", A: o, Whence: io.SeekEnd})
		}
	}
	return ops
}

// rsModel is the io.ReadSeeker reference model over the content.
type rsModel struct {
	content []byte
	off     int64
	created int64 // offset at which the current inner reader was created, -1 if none
}

// applyOp performs op on the real reader and the model; returns a violation
// description or "".
func applyOp(rs io.ReadSeeker, m *rsModel, op rsop) (sig, detail string) {
	L := int64(len(m.content))
	if op.Kind == "seek" {
		var base int64
		switch op.Whence {
		case io.SeekCurrent:
			base = m.off
		case io.SeekEnd:
			base = L
		}
		target := base + op.A
		var got int64
		var err error
		if p, pv := core.Guard(func() { got, err = rs.Seek(op.A, op.Whence) }); p {
			return "panic seek", fmt.Sprint(pv)
		}
		m.created = -1
		if target < 0 {
			if err == nil {
				return "negative-seek-accepted", fmt.Sprintf("%s from offset %d would land at %d but returned (%d,nil)", op, m.off, target, got)
			}
			// the reader must stay usable at a position it reports
			var pos int64
			var perr error
			if p, pv := core.Guard(func() { pos, perr = rs.Seek(0, io.SeekCurrent) }); p {
				return "panic after-negative-seek", fmt.Sprint(pv)
			}
			if perr != nil || pos < 0 {
				return "negative-seek-poisons-reader", fmt.Sprintf("after failed %s, Seek(0,Current) = (%d,%v)", op, pos, perr)
			}
			m.off = pos
			return "", ""
		}
		if err != nil {
			return "seek-error", fmt.Sprintf("%s from offset %d (target %d): %v", op, m.off, target, err)
		}
		if got != target {
			return "seek-offset", fmt.Sprintf("%s from offset %d returned %d, want %d (len %d)", op, m.off, got, target, L)
		}
		m.off = target
		return "", ""
	}
	buf := make([]byte, op.A)
	var n int
	var err error
	if p, pv := core.Guard(func() { n, err = rs.Read(buf) }); p {
		return "panic read", fmt.Sprintf("%s at offset %d: %v", op, m.off, pv)
	}
	if m.created < 0 {
		m.created = m.off
	}
	if n < 0 || n > len(buf) {
		return "read-count", fmt.Sprintf("%s returned n=%d", op, n)
	}
	if m.off >= L {
		if n != 0 || (err != io.EOF && !(op.A == 0 && err == nil)) {
			return "read-at-eof", fmt.Sprintf("%s at offset %d (len %d) returned (%d,%v), want (0,EOF)", op, m.off, L, n, err)
		}
		return "", ""
	}
	if err != nil && !(err == io.EOF && m.off+int64(n) == L && n > 0) {
		return "read-error", fmt.Sprintf("%s at offset %d (len %d) returned (%d,%v)", op, m.off, L, n, err)
	}
	if op.A > 0 && n == 0 {
		return "read-zero", fmt.Sprintf("%s at offset %d (len %d) returned (0,%v)", op, m.off, L, err)
	}
	if m.off+int64(n) > L || !bytes.Equal(buf[:n], m.content[m.off:m.off+int64(n)]) {
		return "read-bytes", fmt.Sprintf("%s at offset %d returned %x, content there is %x", op, m.off, buf[:n], m.content[m.off:min64(L, m.off+int64(n))])
	}
	m.off += int64(n)
	return "", ""
}

func min64(a, b int64) int64 {
	if a < b {
		return a
	}
	return b
}

type c04Built struct {
	s       *store.Store
	root    cid.Cid
	content []byte
}

func (f c04File) buildOnce() (*c04Built, error) {
	if f.Hand != "" {
		spec, ok := gen.HandByLabel(f.Hand)
		if !ok {
			return nil, fmt.Errorf("unknown hand-written DAG %q", f.Hand)
		}
		s := store.New()
		root, content := spec.Build(s)
		return &c04Built{s, root, content}, nil
	}
	s, root, _, err := f.Case.build()
	if err != nil {
		return nil, err
	}
	return &c04Built{s, root, f.Case.content()}, nil
}

// openReaders returns fresh readers over the built file for the given mode.
func (b *c04Built) openReaders(mode string) ([]io.ReadSeeker, error) {
	ls := lsFor(b.s)
	newNode := func() (datamodel.LargeBytesNode, error) {
		rn, err := loadRoot(ls, b.root)
		if err != nil {
			return nil, err
		}
		n, err := openVia("NewUnixFSFile", ls, rn)
		if err != nil {
			return nil, err
		}
		lb, ok := n.(datamodel.LargeBytesNode)
		if !ok {
			return nil, fmt.Errorf("%T is not a LargeBytesNode", n)
		}
		return lb, nil
	}
	n1, err := newNode()
	if err != nil {
		return nil, err
	}
	r1, err := n1.AsLargeBytes()
	if err != nil {
		return nil, err
	}
	switch mode {
	case "single":
		return []io.ReadSeeker{r1}, nil
	case "same-node":
		r2, err := n1.AsLargeBytes()
		return []io.ReadSeeker{r1, r2}, err
	default:
		n2, err := newNode()
		if err != nil {
			return nil, err
		}
		r2, err := n2.AsLargeBytes()
		return []io.ReadSeeker{r1, r2}, err
	}
}

// c04Key is the canonical state after a history: the complete private state of
// every reader (reflection fingerprint: offsets, inner readers and whatever
// else the implementation remembers) — an exact key, no abstraction.
func c04Key(rs []io.ReadSeeker, ms []*rsModel) (string, string) {
	key := ""
	for i, r := range rs {
		// (the private offset is part of the fingerprint; it is not compared
		// with the model's: only what Seek and Read return is the property)
		key += fmt.Sprintf("[%d|%s]", ms[i].off, fingerprint(r))
	}
	return key, ""
}

// c04Run executes a history on fresh readers; returns the final state key and
// a violation message ("" if none).
func c04Run(f c04File, mode string, hist []rsop) (string, string) {
	b, err := f.buildOnce()
	if err != nil {
		return "", "build: " + err.Error()
	}
	return c04RunOn(b, mode, hist)
}

func c04RunOn(b *c04Built, mode string, hist []rsop) (string, string) {
	rs, err := b.openReaders(mode)
	if err != nil {
		return "", "open: " + err.Error()
	}
	ms := make([]*rsModel, len(rs))
	for i := range ms {
		ms[i] = &rsModel{content: b.content, created: -1}
	}
	for i, op := range hist {
		if sig, detail := applyOp(rs[op.R], ms[op.R], op); sig != "" {
			return "", fmt.Sprintf("%s: step %d %s", sig, i, detail)
		}
	}
	key, bad := c04Key(rs, ms)
	if bad != "" {
		return "", "offset-desync: " + bad
	}
	return key, ""
}

// c04Offsets replays a (violation-free) history on the model only.
func c04Offsets(L int, hist []rsop, readers int) []int64 {
	offs := make([]int64, readers)
	for _, op := range hist {
		o := &offs[op.R]
		if op.Kind == "read" {
			n := op.A
			if *o >= int64(L) {
				n = 0
			} else if *o+n > int64(L) {
				n = int64(L) - *o
			}
			*o += n
			continue
		}
		var base int64
		switch op.Whence {
		case io.SeekCurrent:
			base = *o
		case io.SeekEnd:
			base = int64(L)
		}
		if base+op.A >= 0 {
			*o = base + op.A
		}
	}
	return offs
}

func sigOf(msg string) string {
	for i := 0; i < len(msg); i++ {
		if msg[i] == ':' {
			return msg[:i]
		}
	}
	return msg
}

// c04BFS: explicit-state search until no new state.
func c04BFS(r *core.Run, f c04File, mode string) {
	b, err := f.buildOnce()
	if err != nil {
		r.Violate("build-error", f.Label+": "+err.Error(), nil)
		return
	}
	L := len(b.content)
	nr := 1
	if mode != "single" {
		nr = 2
	}
	alpha := c04Alphabet(L, f.Chunk, nr)
	lo, hi := int64(-(L + 1)), int64(2*L+2)
	k0, msg := c04RunOn(b, mode, nil)
	if msg != "" {
		r.Violate(sigOf(msg)+" "+mode, f.Label+": "+msg, c04Replay{f.Label, mode, nil})
		return
	}
	hk := func(k string) [16]byte {
		h := sha256.Sum256([]byte(k))
		var o [16]byte
		copy(o[:], h[:16])
		return o
	}
	seen := map[[16]byte]bool{hk(k0): true}
	frontier := [][]rsop{nil}
	states, maxDepth := 1, 0
	maxStates := 40000
	if !r.Quick() {
		maxStates = 400000
	}
	violations := 0
	for len(frontier) > 0 {
		if states >= maxStates {
			r.Cap(fmt.Sprintf("state cap %d reached for %s/%s (frontier %d)", maxStates, f.Label, mode, len(frontier)))
			break
		}
		if violations >= 40 {
			// a broken reader makes further exploration pointless (and its extra
			// private state can blow up the search)
			r.Cap(fmt.Sprintf("search for %s/%s stopped after %d violations", f.Label, mode, violations))
			break
		}
		h := frontier[0]
		frontier = frontier[1:]
		for _, op := range alpha {
			nh := append(append([]rsop{}, h...), op)
			key, msg := c04RunOn(b, mode, nh)
			r.Transitions.Add(1)
			if msg != "" {
				violations++
				r.Violate(sigOf(msg)+" "+mode+" "+readerKind(f), fmt.Sprintf("%s history %v: %s", f.Label, nh, msg), c04Replay{f.Label, mode, nh})
				continue
			}
			if seen[hk(key)] {
				continue
			}
			seen[hk(key)] = true
			// confine offsets to the finite closure
			out := false
			for _, o := range c04Offsets(L, nh, nr) {
				if o < lo || o > hi {
					out = true
				}
			}
			if out {
				r.Add("offset_boundary_pruned", 1)
				continue
			}
			states++
			if len(nh) > maxDepth {
				maxDepth = len(nh)
			}
			frontier = append(frontier, nh)
			if states%101 == 0 {
				r.Sample(map[string]any{"file": f.Label, "mode": mode, "history": fmt.Sprint(nh), "state": key})
			}
		}
	}
	r.States.Add(int64(states))
	r.Evaluations.Add(int64(states))
	r.Distinct(f.Label + "/" + mode)
	r.Add("max_depth_"+mode, 0)
	c04mu.Lock()
	c04stats = append(c04stats, map[string]any{"file": f.Label, "mode": mode, "len": L, "alphabet": len(alpha), "states": states, "max_depth": maxDepth})
	c04mu.Unlock()
}

func readerKind(f c04File) string {
	if f.Hand != "" {
		return "multi-block"
	}
	if f.Case.L <= f.Chunk && f.Case.Writer != "ours" || f.Case.L <= f.Chunk {
		return "single-block"
	}
	return "multi-block"
}

// c04Flat: every history up to `depth` without deduplication.
func c04Flat(r *core.Run, f c04File, depth int) {
	b, err := f.buildOnce()
	if err != nil {
		return
	}
	alpha := c04Alphabet(len(b.content), f.Chunk, 1)
	var rec func(h []rsop)
	n := int64(0)
	rec = func(h []rsop) {
		if len(h) > 0 {
			n++
			if _, msg := c04RunOn(b, "single", h); msg != "" {
				r.Violate(sigOf(msg)+" single "+readerKind(f), fmt.Sprintf("%s history %v: %s", f.Label, h, msg), c04Replay{f.Label, "single", append([]rsop{}, h...)})
				return // extensions of a failing history are not informative
			}
		}
		if len(h) == depth {
			return
		}
		for _, op := range alpha {
			rec(append(h, op))
		}
	}
	rec(nil)
	r.Transitions.Add(n)
	r.Add("flat_histories", n)
}

func runC04(r *core.Run) {
	r.Rule("explicit-state BFS per file and reader configuration: state = the complete private state of every reader (reflection fingerprint over unexported fields: offsets, inner MultiReader and its remaining child readers, any cache the implementation keeps; offset cross-checked with the model through a verif-tagged hook), alphabet = Read(k)/Seek(o,Start|Current|End) with boundary arguments, successor = fresh reader + replay of the shortest history + 1 op, search runs until no new state within offsets [-(L+1),2L+2]; configurations: one reader, two readers of one node, two readers of two nodes (full product); plus every history up to depth 3 without deduplication; oracle = io.ReadSeeker model over the content bytes")
	r.Assume("the state key is the full private state reachable from the reader (module-defined types, io/sync containers); substrate nodes and the link system are immutable and opaque; cross-checked by the un-deduplicated depth-3 run")
	files := c04Files(r.Quick())
	type job struct {
		f    c04File
		mode string
		flat bool
	}
	var jobs []job
	for _, f := range files {
		jobs = append(jobs, job{f, "single", false}, job{f, "", true})
		if f.Case.L <= 8 || !r.Quick() {
			jobs = append(jobs, job{f, "same-node", false}, job{f, "two-nodes", false})
		}
	}
	depth := 3
	core.ParallelFor(len(jobs), workers, func(i int) {
		j := jobs[i]
		if j.flat {
			d := depth
			if j.f.Case.L > 8 && r.Quick() {
				d = 2
			}
			c04Flat(r, j.f, d)
			return
		}
		c04BFS(r, j.f, j.mode)
	})
	r.Set("searches", c04stats)
}

var c04mu sync.Mutex
var c04stats []map[string]any

var _ = gen.Content
