package checks

import (
	"encoding/json"
	"fmt"
	"io"
	"math"
	"sync"
	"sync/atomic"
	"time"

	pb "github.com/ipfs/boxo/ipld/unixfs/pb"
	"github.com/ipfs/go-cid"
	"github.com/ipfs/go-unixfsnode/data"
	"github.com/ipld/go-ipld-prime/adl"
	"github.com/ipld/go-ipld-prime/datamodel"

	"verif/harness/core"
	"verif/harness/gen"
	"verif/harness/model"
	"verif/harness/store"
)

func init() {
	Registry["C13"] = runC13
	Replayers["C13"] = func(raw []byte) string {
		var c hostileCase
		if err := json.Unmarshal(raw, &c); err != nil {
			return "bad case: " + err.Error()
		}
		var out []string
		c.run(func(sig, detail string) { out = append(out, sig+" :: "+detail) }, nil)
		return joinLines(out)
	}
}

// --------------------------------------------------------------------------
// decoders

var decoderAlphabet = []byte{
	0x00, 0x01, 0x02, 0x05, 0x7f, 0x80, 0xff,
	0x08, 0x0a, 0x0d, // field 1: varint, bytes, fixed32
	0x10, 0x12, 0x15, // field 2: varint, bytes, fixed32
	0x18, 0x1a, // field 3
	0x20, 0x22, // field 4 unpacked, packed
	0x28, 0x30, 0x38, // fields 5,6,7 varint
	0x42, 0x40, // field 8 bytes, varint (wrong)
	0x4b, 0x4c, // field 9 start-group / end-group
}

func decodeAll(b []byte, viol func(sig, detail string)) {
	if p, pv := core.Guard(func() {
		if n, err := data.DecodeUnixFSData(b); err == nil && n != nil {
			_ = n.Permissions()
			_ = data.EncodeUnixFSData(n)
		}
	}); p {
		viol("panic DecodeUnixFSData", fmt.Sprintf("input %x: %v", b, pv))
	}
	if p, pv := core.Guard(func() {
		if n, err := data.DecodeUnixTime(b); err == nil && n != nil {
			_ = data.AppendEncodeUnixTime(nil, n)
		}
	}); p {
		viol("panic DecodeUnixTime", fmt.Sprintf("input %x: %v", b, pv))
	}
	if p, pv := core.Guard(func() {
		if n, err := data.DecodeUnixFSMetadata(b); err == nil && n != nil {
			_ = data.EncodeUnixFSMetadata(n)
		}
	}); p {
		viol("panic DecodeUnixFSMetadata", fmt.Sprintf("input %x: %v", b, pv))
	}
}

func c13Decoders(r *core.Run, maxLen int) {
	a := decoderAlphabet
	// shard the enumeration on the first two symbols
	type pfx struct{ a, b int }
	var shards []pfx
	for i := range a {
		for j := range a {
			shards = append(shards, pfx{i, j})
		}
	}
	decodeAll(nil, func(sig, detail string) { r.Violate(sig, detail, nil) })
	for _, x := range a {
		decodeAll([]byte{x}, func(sig, detail string) { r.Violate(sig, detail, nil) })
	}
	r.Evaluations.Add(int64(1 + len(a)))
	core.ParallelFor(len(shards), workers, func(i int) {
		buf := make([]byte, maxLen)
		buf[0], buf[1] = a[shards[i].a], a[shards[i].b]
		n := int64(0)
		var rec func(l int)
		rec = func(l int) {
			in := buf[:l]
			decodeAll(in, func(sig, detail string) {
				r.Violate(sig, detail, map[string]any{"decoder_input": fmt.Sprintf("%x", in)})
			})
			n++
			if l == maxLen {
				return
			}
			for _, x := range a {
				buf[l] = x
				rec(l + 1)
			}
		}
		rec(2)
		r.Evaluations.Add(n)
		r.Transitions.Add(3 * n)
	})
	r.Set("decoder_alphabet_size", len(a))
	r.Set("decoder_max_len", maxLen)
}

// --------------------------------------------------------------------------
// hostile DAGs

// hostileCase describes a root block by menu indices so that it is replayable.
type hostileCase struct {
	Family  string `json:"family"` // shard | file | other
	Payload int    `json:"payload"`
	Links   []int  `json:"links"` // indices into the family's link menu
}

func (c hostileCase) String() string {
	return fmt.Sprintf("%s payload#%d links%v", c.Family, c.Payload, c.Links)
}

type payloadDef struct {
	Label string
	Data  []byte
	None  bool
}

type linkDef struct {
	Label    string
	Name     string
	HasName  bool
	Tsize    uint64
	HasTsize bool
	Target   string
}

func shardPayload(fanout *uint64, hashType *uint64, bitfield []byte, hasBF bool) []byte {
	return fsData(5, func(d *pb.Data) {
		d.Fanout, d.HashType = fanout, hashType
		if hasBF {
			d.Data = bitfield
			if d.Data == nil {
				d.Data = []byte{}
			}
		}
	})
}

var (
	hostileOnce    sync.Once
	shardPayloads  []payloadDef
	filePayloads   []payloadDef
	otherPayloads  []payloadDef
	shardLinkMenu  []linkDef
	fileLinkMenu   []linkDef
	otherLinkMenu  []linkDef
	hostileTargets map[string]func(s *store.Store) cid.Cid
)

func hostileInit() {
	hostileOnce.Do(func() {
		fanouts := []*uint64{nil, u64p(0), u64p(1), u64p(2), u64p(4), u64p(8), u64p(16), u64p(1024), u64p(2048), u64p(1 << 63), u64p(math.MaxUint64)}
		hashTypes := []*uint64{nil, u64p(0x22), u64p(0x12)}
		for _, f := range fanouts {
			for _, h := range hashTypes {
				exact := 1
				if f != nil && *f >= 8 && *f <= 1024 {
					exact = int(*f / 8)
				}
				ones := make([]byte, exact)
				for i := range ones {
					ones[i] = 0xff
				}
				bfs := []struct {
					l   string
					b   []byte
					has bool
				}{
					{"absent", nil, false}, {"empty", []byte{}, true}, {"exact-zero", make([]byte, exact), true},
					{"longer", append([]byte{0x01}, make([]byte, exact)...), true}, {"shorter", ones[:exact-1], true},
					{"all-ones", ones, true}, {"low3", []byte{0x07}, true},
					// longer than the fanout only through leading zero bytes (a
					// left-padded big-endian bitfield), with and without bits set
					{"zero-padded", append([]byte{0x00, 0x00}, ones...), true}, {"zero-padded-low", append(make([]byte, exact+1), 0x01), true},
				}
				for _, bf := range bfs {
					fl, hl := "absent", "absent"
					if f != nil {
						fl = fmt.Sprint(*f)
					}
					if h != nil {
						hl = fmt.Sprintf("%x", *h)
					}
					shardPayloads = append(shardPayloads, payloadDef{Label: fmt.Sprintf("shard fanout=%s hash=%s bitfield=%s", fl, hl, bf.l), Data: shardPayload(f, h, bf.b, bf.has)})
				}
			}
		}
		for _, t := range []int32{2, 0} {
			for _, fsz := range []*uint64{nil, u64p(6), u64p(2), u64p(math.MaxInt64), u64p(math.MaxUint64)} {
				for _, bs := range [][]uint64{nil, {3, 3}, {3}, {3, 3, 3, 3}, {math.MaxInt64, 3}, {math.MaxUint64, 1 << 63}, {0, 0}} {
					for _, d := range [][]byte{nil, []byte("xy")} {
						fl := "absent"
						if fsz != nil {
							fl = fmt.Sprint(*fsz)
						}
						fsz, bs, d := fsz, bs, d
						filePayloads = append(filePayloads, payloadDef{Label: fmt.Sprintf("type=%d filesize=%s blocksizes=%v data=%q", t, fl, bs, d),
							Data: fsData(t, func(m *pb.Data) { m.Filesize, m.Blocksizes, m.Data = fsz, bs, d })})
					}
				}
			}
		}
		otherPayloads = []payloadDef{
			{Label: "no-data", None: true},
			{Label: "garbage", Data: []byte{0xff}},
			{Label: "directory", Data: fsData(1, nil)},
			{Label: "metadata", Data: fsData(3, nil)},
			{Label: "symlink", Data: fsData(4, func(d *pb.Data) { d.Data = []byte("t") })},
			{Label: "type-6", Data: fsData(6, nil)},
			{Label: "type-minus1", Data: []byte{0x08, 0xff, 0xff, 0xff, 0xff, 0xff, 0xff, 0xff, 0xff, 0xff, 0x01}},
			{Label: "directory-with-shard-fields", Data: fsData(1, func(d *pb.Data) { d.Fanout, d.HashType = u64p(8), u64p(0x22) })},
		}
		names := []struct {
			n   string
			has bool
		}{{"", false}, {"", true}, {"0", true}, {"00", true}, {"00a", true}, {"FFx", true}, {"3FF", true}, {"Ab", true}, {"0a", true}, {"1", true}}
		for _, nm := range names {
			for _, tg := range []string{"raw", "missing", "plain-pb", "shard8", "shard16", "shard2", "shard1024", "shard8-nested16", "shard8-badlink"} {
				shardLinkMenu = append(shardLinkMenu, linkDef{Label: fmt.Sprintf("name=%q(%v)->%s", nm.n, nm.has, tg), Name: nm.n, HasName: nm.has, Tsize: 5, HasTsize: true, Target: tg})
			}
		}
		for _, ts := range []struct {
			v   uint64
			has bool
		}{{0, false}, {0, true}, {3, true}, {math.MaxInt64, true}} {
			for _, tg := range []string{"raw", "missing", "plain-pb", "file2", "file-noblocksizes", "file-lying", "dir", "inner-garbage-2pb", "inner-emptydata-2pb"} {
				fileLinkMenu = append(fileLinkMenu, linkDef{Label: fmt.Sprintf("tsize=%d(%v)->%s", ts.v, ts.has, tg), Tsize: ts.v, HasTsize: ts.has, Target: tg})
			}
		}
		for _, nm := range names[:6] {
			for _, tg := range []string{"raw", "missing", "shard8"} {
				otherLinkMenu = append(otherLinkMenu, linkDef{Label: fmt.Sprintf("name=%q(%v)->%s", nm.n, nm.has, tg), Name: nm.n, HasName: nm.has, Tsize: 1, HasTsize: true, Target: tg})
			}
		}
		put := func(s *store.Store, b []byte, raw bool) cid.Cid {
			bld := gen.V1PB
			if raw {
				bld = gen.V1Raw
			}
			c, _ := bld.Sum(b)
			s.Put(c, b)
			return c
		}
		rawLeaf := func(s *store.Store) cid.Cid { return put(s, []byte("abc"), true) }
		shardBlock := func(s *store.Store, fanout uint64, bf []byte, links []model.PBLink) cid.Cid {
			n := &model.PBNode{Data: shardPayload(u64p(fanout), u64p(0x22), bf, true), HasData: true, Links: links}
			return put(s, model.EncodePB(n), false)
		}
		vlink := func(s *store.Store, name string) model.PBLink {
			return model.PBLink{Cid: rawLeaf(s), Name: name, HasName: true, Tsize: 3, HasTsize: true}
		}
		hostileTargets = map[string]func(s *store.Store) cid.Cid{
			"raw": rawLeaf,
			"missing": func(s *store.Store) cid.Cid {
				c, _ := gen.V1PB.Sum([]byte("never stored"))
				return c
			},
			"plain-pb": func(s *store.Store) cid.Cid { return put(s, model.EncodePB(&model.PBNode{}), false) },
			"shard8": func(s *store.Store) cid.Cid {
				return shardBlock(s, 8, []byte{0x05}, []model.PBLink{vlink(s, "0x"), vlink(s, "2yy")})
			},
			"shard16": func(s *store.Store) cid.Cid {
				return shardBlock(s, 16, []byte{0x00, 0x03}, []model.PBLink{vlink(s, "0x"), vlink(s, "1y")})
			},
			"shard2": func(s *store.Store) cid.Cid {
				return shardBlock(s, 2, []byte{0x03}, []model.PBLink{vlink(s, "0"), vlink(s, "1y")})
			},
			"shard1024": func(s *store.Store) cid.Cid {
				return shardBlock(s, 1024, []byte{0x01}, []model.PBLink{vlink(s, "000x"), vlink(s, "00")})
			},
			"shard8-nested16": func(s *store.Store) cid.Cid {
				inner := shardBlock(s, 16, []byte{0x01}, []model.PBLink{vlink(s, "0x")})
				return shardBlock(s, 8, []byte{0x03}, []model.PBLink{{Cid: inner, Name: "0", HasName: true, Tsize: 9, HasTsize: true}, vlink(s, "1q")})
			},
			"shard8-badlink": func(s *store.Store) cid.Cid {
				return shardBlock(s, 8, []byte{0xff}, []model.PBLink{{Cid: rawLeaf(s)}, vlink(s, ""), vlink(s, "7")})
			},
			"file2": func(s *store.Store) cid.Cid {
				n := &model.PBNode{Data: fsData(2, func(d *pb.Data) { d.Filesize = u64p(6); d.Blocksizes = []uint64{3, 3} }), HasData: true,
					Links: []model.PBLink{{Cid: rawLeaf(s), Tsize: 3, HasTsize: true}, {Cid: rawLeaf(s), Tsize: 3, HasTsize: true}}}
				return put(s, model.EncodePB(n), false)
			},
			"file-noblocksizes": func(s *store.Store) cid.Cid {
				n := &model.PBNode{Data: fsData(2, nil), HasData: true, Links: []model.PBLink{{Cid: rawLeaf(s)}}}
				return put(s, model.EncodePB(n), false)
			},
			"file-lying": func(s *store.Store) cid.Cid {
				n := &model.PBNode{Data: fsData(2, func(d *pb.Data) {
					d.Filesize = u64p(math.MaxUint64)
					d.Blocksizes = []uint64{1 << 62, 1 << 62, 1 << 62}
				}), HasData: true,
					Links: []model.PBLink{{Cid: rawLeaf(s), Tsize: math.MaxInt64, HasTsize: true}}}
				return put(s, model.EncodePB(n), false)
			},
			// interior nodes whose Data does not decode, above two dag-pb leaves:
			// reading through them asks for their metadata more than once
			"inner-garbage-2pb": func(s *store.Store) cid.Cid {
				leaf := func(b string) model.PBLink {
					c := put(s, model.EncodePB(&model.PBNode{Data: fsData(2, func(d *pb.Data) { d.Data = []byte(b); d.Filesize = u64p(uint64(len(b))) }), HasData: true}), false)
					return model.PBLink{Cid: c, Tsize: 9, HasTsize: true}
				}
				return put(s, model.EncodePB(&model.PBNode{Data: []byte{0x08, 0x80}, HasData: true, Links: []model.PBLink{leaf("he"), leaf("llo")}}), false)
			},
			"inner-emptydata-2pb": func(s *store.Store) cid.Cid {
				leaf := func(b string) model.PBLink {
					c := put(s, model.EncodePB(&model.PBNode{Data: fsData(2, func(d *pb.Data) { d.Data = []byte(b); d.Filesize = u64p(uint64(len(b))) }), HasData: true}), false)
					return model.PBLink{Cid: c, Tsize: 9, HasTsize: true}
				}
				return put(s, model.EncodePB(&model.PBNode{Data: []byte{}, HasData: true, Links: []model.PBLink{leaf("wo"), leaf("rld")}}), false)
			},
			"dir": func(s *store.Store) cid.Cid {
				return put(s, model.EncodePB(&model.PBNode{Data: fsData(1, nil), HasData: true, Links: []model.PBLink{vlink(s, "e")}}), false)
			},
		}
	})
}

func (c hostileCase) menus() ([]payloadDef, []linkDef) {
	hostileInit()
	switch c.Family {
	case "shard":
		return shardPayloads, shardLinkMenu
	case "file":
		return filePayloads, fileLinkMenu
	}
	return otherPayloads, otherLinkMenu
}

var hostileQueries = func() []string {
	q := []string{"", "0", "00", "a", "x", "yy", "00a", "Ab", "q", "nope"}
	// one name per bucket of the two smallest fanouts (top 4 hash bits 0..15):
	// whatever the bitfield claims, every bucket of the root is probed
	// (precomputed murmur3 inversions: nothing is searched for at start-up)
	q = append(q, gen.BucketProbeNames[4]...)
	return q
}()

// run builds the root block, reifies it lazily and with preload and exercises
// every node operation under recover() and a step budget.
func (c hostileCase) run(viol func(sig, detail string), r *core.Run) {
	if c.Family == "chain" && len(c.Links) == 2 && c.Links[1] < len(c13ChainNames()) {
		c13Chain(c.Payload, c.Links[0], c.Links[1], viol, nil)
		return
	}
	if c.Family == "diamond" && len(c.Links) == 1 && c.Links[0] < len(c13Hows) {
		c13Diamond(c.Payload, c13Hows[c.Links[0]], viol)
		return
	}
	s := store.New()
	var root cid.Cid
	var desc string
	if c.Family == "handshard" {
		// hand-written shard DAGs: mixed fanouts, empty child shards, duplicate
		// slots, bitfields that do not match the links
		labels := gen.HandShardLabels()
		if c.Payload >= len(labels) {
			viol("harness-bad-case", c.String())
			return
		}
		desc = labels[c.Payload]
		root, _ = gen.HandShards()[desc].Build(s)
	} else {
		payloads, menu := c.menus()
		if c.Payload >= len(payloads) {
			viol("harness-bad-case", c.String())
			return
		}
		p := payloads[c.Payload]
		pn := &model.PBNode{}
		if !p.None {
			pn.Data, pn.HasData = p.Data, true
		}
		desc = p.Label
		for _, li := range c.Links {
			l := menu[li]
			pn.Links = append(pn.Links, model.PBLink{Cid: hostileTargets[l.Target](s), Name: l.Name, HasName: l.HasName, Tsize: l.Tsize, HasTsize: l.HasTsize})
			desc += " [" + l.Label + "]"
		}
		rootBytes := model.EncodePB(pn)
		root, _ = gen.V1PB.Sum(rootBytes)
		s.Put(root, rootBytes)
	}
	ls := lsFor(s)
	// step budget: 64*(1+E), E = size of the tree expansion (<= 1 + 3*(1+2*(1+1)) here)
	const budget = 64 * 40
	steps := 0
	guard := func(op string, f func()) {
		before := len(s.Reads())
		if pnk, pv := core.Guard(f); pnk {
			viol("panic "+c.Family+" "+op, fmt.Sprintf("%s: %s: %v", c, desc, pv))
		}
		steps += len(s.Reads()) - before + 1
		if r != nil {
			r.Transitions.Add(1)
		}
	}
	for _, how := range []string{"unixfs", "unixfs-preload"} {
		var n datamodel.Node
		var err error
		s.ResetLogs()
		steps = 0
		rn, lerr := loadRoot(ls, root)
		if lerr != nil {
			// the dag-pb codec itself rejected the block: outside "decodable dag-pb blocks"
			return
		}
		guard("reify/"+how, func() { n, err = openVia(how, ls, rn) })
		if err != nil || n == nil {
			continue
		}
		guard("Kind/Length", func() { _ = n.Kind(); _ = n.Length(); _ = n.IsNull(); _ = n.IsAbsent() })
		if a, ok := n.(adl.ADL); ok {
			guard("Substrate", func() { _ = a.Substrate() })
		}
		for _, q := range hostileQueries {
			q := q
			guard("lookups", func() { lookupAll(n, q) })
		}
		guard("LookupByIndex", func() { n.LookupByIndex(0) })
		guard("MapIterator", func() {
			it := n.MapIterator()
			if it == nil {
				return
			}
			for i := 0; !it.Done(); i++ {
				it.Next()
				steps++
				if i > budget {
					viol("unbounded MapIterator "+c.Family, fmt.Sprintf("%s: %s: iterator not done after %d steps", c, desc, i))
					return
				}
			}
			it.Next() // over-read
		})
		if nd, ok := n.(nativeDir); ok {
			guard("Iterator", func() {
				it := nd.Iterator()
				for i := 0; !it.Done(); i++ {
					it.Next()
					steps++
					if i > budget {
						viol("unbounded Iterator "+c.Family, fmt.Sprintf("%s: %s: iterator not done after %d steps", c, desc, i))
						return
					}
				}
			})
		}
		guard("AsBytes", func() { n.AsBytes() })
		if lb, ok := n.(datamodel.LargeBytesNode); ok {
			seqs := [][]rsOp{
				{{"seek", -1, io.SeekStart}, {"read", 5, 0}, {"seek", 0, io.SeekCurrent}},
				{{"seek", 0, io.SeekEnd}, {"read", 1, 0}, {"seek", -1, io.SeekCurrent}, {"read", 5, 0}},
				{{"seek", 1, io.SeekStart}, {"read", 0, 0}, {"read", 1, 0}, {"read", 5, 0}, {"read", 5, 0}},
				{{"seek", math.MaxInt64, io.SeekStart}, {"read", 1, 0}, {"seek", 1, io.SeekCurrent}, {"read", 1, 0}},
				{{"seek", math.MinInt64, io.SeekEnd}, {"read", 1, 0}},
				{{"seek", -2, io.SeekEnd}, {"read", 5, 0}, {"seek", math.MinInt64, io.SeekCurrent}, {"read", 1, 0}},
				{{"seek", 4, io.SeekStart}, {"read", 5, 0}, {"seek", 0, 7}, {"read", 5, 0}},
			}
			for _, seq := range seqs {
				seq := seq
				guard("read/seek", func() {
					rs, err := lb.AsLargeBytes()
					if err != nil || rs == nil {
						return
					}
					for _, op := range seq {
						if op.op == "seek" {
							rs.Seek(op.a, op.whence)
						} else {
							rs.Read(make([]byte, op.a))
						}
						steps++
					}
					// drain with a call bound
					rs.Seek(0, io.SeekStart)
					buf := make([]byte, 4)
					for i := 0; i < budget; i++ {
						nn, err := rs.Read(buf)
						steps++
						if err != nil {
							// a caller that retries after an error (and one that
							// repositions and retries) gets values or errors too
							for k := 0; k < 3; k++ {
								rs.Read(buf)
								steps++
							}
							rs.Seek(0, io.SeekCurrent)
							rs.Read(buf)
							rs.Seek(0, io.SeekStart)
							rs.Read(buf)
							steps += 4
							return
						}
						if nn == 0 && i > 8 {
							return
						}
					}
					viol("unbounded Read "+c.Family, fmt.Sprintf("%s: %s: no EOF/error after %d reads of a <=40-block DAG", c, desc, budget))
				})
			}
		}
		if steps > budget*8 {
			viol("step-budget "+c.Family, fmt.Sprintf("%s: %s: %d steps via %s", c, desc, steps, how))
		}
	}
	if r != nil {
		r.States.Add(1)
	}
}

type rsOp struct {
	op     string
	a      int64
	whence int
}

// current case per worker, for the watchdog
var c13Current sync.Map

func runC13(r *core.Run) {
	hostileInit()
	r.Rule("bounded-exhaustive: (1) every byte string of length <= 4 (quick) / 5 (thorough) over a 24-symbol protobuf-aware alphabet to the three decoders (+ permissions/encode of every accepted value); (2) hostile DAGs: root payload menu (shards: 11 fanouts x 3 hash types x 9 bitfield shapes; files: 2 types x 5 file sizes x 7 block-size lists x 2 data; 8 other payloads) x link lists over (name x target) / (Tsize x target) menus incl. child shards of different fanout, missing blocks, lying sizes; every node operation on the lazy and preload reification under recover() with a step budget; distinct = distinct cases")
	r.Assume("DAG depth <= 3, <= 3 links per root; a watchdog reports a case that runs for more than 300 s of wall time")
	maxLen := 4
	if !r.Quick() {
		maxLen = 5
	}
	c13Decoders(r, maxLen)
	// truncations of well-formed presentations (shared with C09)
	for _, msg := range c09Corpus(true) {
		for _, pres := range [][]byte{msg.canonical()} {
			for i := 0; i <= len(pres); i++ {
				decodeAll(pres[:i], func(sig, detail string) {
					r.Violate(sig, detail, map[string]any{"decoder_input": fmt.Sprintf("%x", pres[:i])})
				})
				r.Evaluations.Add(1)
			}
		}
	}

	var cases []hostileCase
	lists := func(menuLen, maxLen int, restrict func(i int) bool) [][]int {
		out := [][]int{nil}
		var rec func(cur []int)
		rec = func(cur []int) {
			if len(cur) == maxLen {
				return
			}
			for i := 0; i < menuLen; i++ {
				if len(cur) >= 1 && restrict != nil && !restrict(i) {
					continue
				}
				nx := append(append([]int{}, cur...), i)
				out = append(out, nx)
				rec(nx)
			}
		}
		rec(nil)
		return out
	}
	quick := r.Quick()
	// shards: lists <= 2 (second link from a restricted menu in quick)
	shardLists := lists(len(shardLinkMenu), 2, func(i int) bool { return !quick || i%7 == 0 })
	for p := range shardPayloads {
		if quick && p%2 == 1 && p > 40 {
			// quick: every other payload beyond the first block of fanouts
			continue
		}
		for _, l := range shardLists {
			cases = append(cases, hostileCase{Family: "shard", Payload: p, Links: l})
		}
	}
	fileMax := 2
	if !quick {
		fileMax = 3
	}
	fileLists := lists(len(fileLinkMenu), fileMax, func(i int) bool { return !quick || i%3 == 0 })
	for p := range filePayloads {
		if quick && p%3 != 0 {
			continue
		}
		for _, l := range fileLists {
			cases = append(cases, hostileCase{Family: "file", Payload: p, Links: l})
		}
	}
	otherLists := lists(len(otherLinkMenu), 2, nil)
	for p := range otherPayloads {
		for _, l := range otherLists {
			cases = append(cases, hostileCase{Family: "other", Payload: p, Links: l})
		}
	}
	for i := range gen.HandShardLabels() {
		cases = append(cases, hostileCase{Family: "handshard", Payload: i})
	}
	// deep chains along a name's real hash path: at, just below and beyond the
	// depth a 64-bit hash can address
	c13Chains(r)
	r.Set("hostile_dags", len(cases))
	r.Set("shard_payloads", len(shardPayloads))
	r.Set("file_payloads", len(filePayloads))

	// watchdog: a single case running for minutes is unbounded work
	var done atomic.Bool
	go func() {
		for !done.Load() {
			time.Sleep(5 * time.Second)
			c13Current.Range(func(k, v any) bool {
				st := v.(c13Slot)
				if time.Since(st.start) > 300*time.Second {
					r.Violate("unbounded-work watchdog "+st.c.Family, fmt.Sprintf("%s still running after 300s", st.c), st.c)
					fmt.Printf("VIOLATION property=C13 replay=- sig=unbounded-work watchdog :: %s\n", st.c)
					r.Finish()
					panic("C13 watchdog: non-terminating case " + st.c.String())
				}
				return true
			})
		}
	}()
	core.ParallelFor(len(cases), workers, func(i int) {
		c := cases[i]
		c13Current.Store(i, c13Slot{c, time.Now()})
		r.Evaluations.Add(1)
		r.Distinct(c.String())
		if i%20011 == 0 {
			r.Sample(c.String())
		}
		c.run(func(sig, detail string) { r.Violate(sig, detail, c) }, r)
		c13Current.Delete(i)
	})
	done.Store(true)
}

type c13Slot struct {
	c     hostileCase
	start time.Time
}

// c13Chains: single-child shard chains of depth maxLevels-1 .. maxLevels+2 for
// every fanout; every operation must return a value or an error.
func c13ChainNames() []string {
	return []string{gen.NameWithHash(0xA5C396E17B2D4F80), gen.NameWithHash(^uint64(0)), "k75"}
}

func c13Chain(fanout, depth, nameIdx int, viol func(sig, detail string), r *core.Run) {
	names := c13ChainNames()
	name := names[nameIdx]
	w := 0
	for 1<<uint(w) < fanout {
		w++
	}
	max := model.MaxLevels(w)
	s := store.New()
	root, leaf := gen.DeepChain(s, name, fanout, depth)
	desc := fmt.Sprintf("chain fanout=%d depth=%d (addressable levels %d) name=%q", fanout, depth, max, name)
	ls := lsFor(s)
	rn, err := loadRoot(ls, root)
	if err != nil {
		viol("harness-bad-case", "deep chain: "+err.Error())
		return
	}
	for _, how := range c13Hows {
		var nd datamodel.Node
		var rerr error
		guard := func(op string, f func()) {
			if p, pv := core.Guard(f); p {
				viol("panic chain "+op, fmt.Sprintf("%s via %s: %v", desc, how, pv))
			}
			if r != nil {
				r.Transitions.Add(1)
			}
		}
		guard("reify", func() { nd, rerr = openVia(how, ls, rn) })
		if rerr != nil || nd == nil {
			continue
		}
		for _, q := range []string{name, "other", names[0], ""} {
			q := q
			guard("lookup", func() {
				res, lerr := lookupAll(nd, q)
				if q == name && depth <= max && (lerr != nil || res[0] != leaf.Cid.String()) {
					viol("chain-lookup-misses", fmt.Sprintf("%s via %s: lookup of the chained name = %q err=%v", desc, how, res[0], lerr))
				}
				if q == name && depth > max && lerr == nil {
					viol("chain-lookup-beyond-hash", fmt.Sprintf("%s via %s: lookup succeeded %d levels deep", desc, how, depth))
				}
			})
		}
		guard("iterate", func() {
			pairs, _, term := iterateMap(nd, 10*depth+64)
			if !term {
				viol("unbounded chain-iterate", desc)
			}
			if len(pairs) > 1 {
				viol("chain-iterate-extra", fmt.Sprintf("%s: %v", desc, pairs))
			}
		})
		guard("length", func() { _ = nd.Length() })
	}
}

func c13Chains(r *core.Run) {
	n := 0
	for _, fanout := range []int{8, 16, 32, 64, 128, 256, 512, 1024} {
		w := 0
		for 1<<uint(w) < fanout {
			w++
		}
		max := model.MaxLevels(w)
		for _, depth := range []int{1, max - 1, max, max + 1, max + 2} {
			for ni := range c13ChainNames() {
				n++
				c := hostileCase{Family: "chain", Payload: fanout, Links: []int{depth, ni}}
				r.Evaluations.Add(1)
				r.Distinct(c.String())
				c13Chain(fanout, depth, ni, func(sig, detail string) { r.Violate(sig, detail, c) }, r)
				r.States.Add(1)
			}
		}
	}
	r.Set("deep_chains", n)
	// diamond chains: depth+2 distinct blocks, 2^depth paths. Length and the
	// preloading reification are given k blocks and must not do 2^k work.
	for _, depth := range []int{1, 2, 5, 12, 16} {
		for hi := range c13Hows {
			c := hostileCase{Family: "diamond", Payload: depth, Links: []int{hi}}
			r.Evaluations.Add(1)
			r.Distinct(c.String())
			loads := c13Diamond(depth, c13Hows[hi], func(sig, detail string) { r.Violate(sig, detail, c) })
			r.Transitions.Add(3)
			r.States.Add(1)
			r.Set(fmt.Sprintf("diamond_loads_depth_%d_%s", depth, c13Hows[hi]), loads)
		}
	}
}

var c13Hows = []string{"unixfs", "unixfs-preload"}

func c13Diamond(depth int, how string, viol func(sig, detail string)) int {
	s := store.New()
	root, blocks := gen.DiamondChain(s, depth)
	desc := fmt.Sprintf("diamond chain depth=%d (%d distinct blocks, 2^%d paths) via %s", depth, blocks, depth, how)
	ls := lsFor(s)
	rn, err := loadRoot(ls, root)
	if err != nil {
		viol("harness-bad-case", "diamond chain: "+err.Error())
		return 0
	}
	before := len(s.Reads())
	var nd datamodel.Node
	if p, pv := core.Guard(func() { nd, err = openVia(how, ls, rn) }); p {
		viol("panic diamond reify", fmt.Sprintf("%s: %v", desc, pv))
		return 0
	}
	if err != nil || nd == nil {
		return 0
	}
	var length int64
	if p, pv := core.Guard(func() { length = nd.Length() }); p {
		viol("panic diamond length", fmt.Sprintf("%s: %v", desc, pv))
		return 0
	}
	loads := len(s.Reads()) - before
	if length != 1<<uint(depth) {
		viol("diamond-length", fmt.Sprintf("%s: Length() = %d, the expansion holds %d entries", desc, length, 1<<uint(depth)))
	}
	if loads > 8*blocks {
		viol("step-budget diamond", fmt.Sprintf("%s: reification + Length() loaded %d blocks from a DAG of %d", desc, loads, blocks))
	}
	if p, pv := core.Guard(func() { iterateMap(nd, 100) }); p {
		viol("panic diamond iterate", fmt.Sprintf("%s: %v", desc, pv))
	}
	return loads
}
