package checks

import (
	"encoding/json"
	"fmt"
	"io"
	"os"
	"runtime"
	"runtime/debug"
	"sort"
	"strings"
	"sync"
	"time"

	pb "github.com/ipfs/boxo/ipld/unixfs/pb"
	"github.com/ipfs/go-cid"
	"github.com/ipld/go-ipld-prime"
	"github.com/ipld/go-ipld-prime/datamodel"

	"verif/harness/core"
	"verif/harness/gen"
	"verif/harness/model"
	"verif/harness/store"
	"verif/harness/xplore"
)

func init() {
	Registry["C17"] = runC17
	Registry["C17RACE"] = runC17Race
	Replayers["C17"] = func(raw []byte) string {
		var c c17Replay
		if err := json.Unmarshal(raw, &c); err != nil {
			return "bad case: " + err.Error()
		}
		if !overlayActive {
			return "C17 replay needs the instrumented overlay build"
		}
		sc, ok := c17ScenarioByName(c.Scenario)
		if !ok {
			return "unknown scenario " + c.Scenario
		}
		inst := sc.setup()
		var out []string
		c17Exec(sc, inst, nil, c.Choices, func(sig, detail string) { out = append(out, sig+" :: "+detail) })
		return joinLines(out)
	}
}

type c17Replay struct {
	Scenario string `json:"scenario"`
	Choices  []int  `json:"choices"`
}

// c17Inst is the immutable part of a scenario: store and loaded root.
type c17Inst struct {
	s     *store.Store
	ls    *ipld.LinkSystem
	root  cid.Cid
	rootN datamodel.Node
	names []string
	via   string
}

type c17Scenario struct {
	Name    string
	Threads int
	Bounds  []int // preemption bounds to complete, in order; 1000 = unbounded
	setup   func() *c17Inst
	prelude func(n datamodel.Node)
	bodies  func(inst *c17Inst, n datamodel.Node) []func() string
}

func c17Dir() *c17Inst {
	s := store.New()
	col := gen.Colliders("k", 12, 3) // share 4 levels at fanout 8
	names := append(append([]string{}, col...), gen.CollidersWith("m", col[0], 6, 2)...)
	names = append(names, "b c", "é", "0")
	root, _, err := gen.OursSharded(s, 8, gen.Leaves(s, names))
	if err != nil {
		panic(err)
	}
	ls := lsFor(s)
	rn, err := loadRoot(ls, root)
	if err != nil {
		panic(err)
	}
	return &c17Inst{s: s, ls: ls, root: root, rootN: rn, names: names, via: "unixfs"}
}

// c17DirMissing: the same directory with the first child shard on the hash
// path of names[0] (shared by names[1], names[2]) unavailable: concurrent calls
// that need it must each report the load error they report alone.
func c17DirMissing() *c17Inst {
	i := c17Dir()
	hm, err := model.Hamt(i.s, i.root)
	if err != nil {
		panic(err)
	}
	path, _ := hm.HashPath(i.names[0])
	if len(path) == 0 {
		panic("c17DirMissing: no child shard on the hash path")
	}
	i.s.Missing = map[string]store.ErrKind{string(path[0].Hash()): store.NotFound}
	return i
}

// c17MixedShard: a hand-written directory whose child shard has another prefix
// width than the root (a listing alone refuses it, lookups and Length walk it):
// what a call answers must not depend on what another goroutine cached first.
func c17MixedShard() *c17Inst {
	s := store.New()
	root, _ := gen.HandShards()["mixed 256>16 short-names"].Build(s)
	ls := lsFor(s)
	rn, err := loadRoot(ls, root)
	if err != nil {
		panic(err)
	}
	// a name whose hash selects bucket 0xA5 of the root: the lookup descends
	// into (and caches) the narrower child
	probe := gen.NameWithHash(0xA5<<56 | 0x3C96E17B2D4F80)
	return &c17Inst{s: s, ls: ls, root: root, rootN: rn, names: []string{probe, "zz", "!"}, via: "unixfs"}
}

func c17File() *c17Inst {
	c := fileCase{Writer: "ours", W: 2, Chunker: "size-3", L: 13, K: 3, Pattern: "distinct"}
	s, root, _, err := c.build()
	if err != nil {
		panic(err)
	}
	ls := lsFor(s)
	rn, err := loadRoot(ls, root)
	if err != nil {
		panic(err)
	}
	return &c17Inst{s: s, ls: ls, root: root, rootN: rn, via: "unixfs"}
}

func lookupBody(n datamodel.Node, name string) func() string {
	return func() string {
		v, err := n.LookupByString(name)
		if err != nil {
			return "err:" + err.Error()
		}
		l, _ := v.AsLink()
		return "link:" + l.String()
	}
}

func lengthBody(n datamodel.Node) func() string {
	return func() string { return fmt.Sprintf("len:%d", n.Length()) }
}

func iterBody(n datamodel.Node) func() string {
	return func() string {
		pairs, errs, term := iterateMap(n, 1000)
		sort.Slice(pairs, func(i, j int) bool { return pairs[i].K < pairs[j].K })
		return fmt.Sprintf("iter:%v errs=%d term=%v", pairs, len(errs), term)
	}
}

func readAllBody(n datamodel.Node, buf int) func() string {
	return func() string {
		lb, ok := n.(datamodel.LargeBytesNode)
		if !ok {
			return "not-large"
		}
		rs, err := lb.AsLargeBytes()
		if err != nil {
			return "err:" + err.Error()
		}
		b, err := readAllBuf(rs, buf, 1000)
		return fmt.Sprintf("bytes:%x err=%v", b, err)
	}
}

func seekEndBody(n datamodel.Node) func() string {
	return func() string {
		lb, ok := n.(datamodel.LargeBytesNode)
		if !ok {
			return "not-large"
		}
		rs, _ := lb.AsLargeBytes()
		e, err := rs.Seek(0, io.SeekEnd)
		return fmt.Sprintf("end:%d err=%v", e, err)
	}
}

func asBytesBody(n datamodel.Node) func() string {
	return func() string {
		b, err := n.AsBytes()
		return fmt.Sprintf("asbytes:%x err=%v", b, err)
	}
}

// c17PlainDir: a plain (unsharded) directory block.
func c17PlainDir() *c17Inst {
	s := store.New()
	names := []string{"a", "b c", "é", "0", "zz"}
	root, _, err := gen.OursDir(s, gen.Leaves(s, names))
	if err != nil {
		panic(err)
	}
	ls := lsFor(s)
	rn, err := loadRoot(ls, root)
	if err != nil {
		panic(err)
	}
	return &c17Inst{s: s, ls: ls, root: root, rootN: rn, names: names, via: "unixfs"}
}

// c17InlineFile: a single dag-pb block holding the file bytes inline (the
// wrapped-node file view).
func c17InlineFile() *c17Inst {
	s := store.New()
	blk := model.EncodePB(&model.PBNode{Data: fsData(2, func(d *pb.Data) { d.Data = []byte("inline-bytes"); d.Filesize = u64p(12) }), HasData: true})
	root, _ := gen.V1PB.Sum(blk)
	s.Put(root, blk)
	ls := lsFor(s)
	rn, err := loadRoot(ls, root)
	if err != nil {
		panic(err)
	}
	return &c17Inst{s: s, ls: ls, root: root, rootN: rn, via: "unixfs"}
}

// c17HandFile: a file whose interior nodes record no BlockSizes, so that the
// reader has to open dag-pb children to learn their size (a code path both
// writers of this repository never exercise).
func c17HandFile() *c17Inst {
	spec, ok := gen.HandByLabel("hand 2x2 leaves=pbfile blocksizes=none filesize=true")
	if !ok {
		panic("hand-written DAG family changed")
	}
	s := store.New()
	root, _ := spec.Build(s)
	ls := lsFor(s)
	rn, err := loadRoot(ls, root)
	if err != nil {
		panic(err)
	}
	return &c17Inst{s: s, ls: ls, root: root, rootN: rn, via: "unixfs"}
}

func c17Scenarios(quick bool) []c17Scenario {
	// a stateless search without partial-order reduction cannot finish the
	// unbounded space (600k executions were not enough for 2 threads with 45
	// schedule points); bounds are iterated instead and the completed bound is
	// reported
	b2 := []int{0, 1, 2, 3}
	b3 := []int{0, 1, 2}
	b3small := []int{0, 1, 2, 3} // 3-thread scenarios with few schedule points
	if quick {
		b2 = []int{0, 1, 2}
		b3 = []int{0, 1}
		b3small = []int{0, 1, 2}
	}
	warm := func(n datamodel.Node) { n.Length() }
	return []c17Scenario{
		{Name: "S1-cold-two-lookups-same-child", Threads: 2, Bounds: b2, setup: c17Dir,
			bodies: func(i *c17Inst, n datamodel.Node) []func() string {
				return []func() string{lookupBody(n, i.names[0]), lookupBody(n, i.names[1])}
			}},
		{Name: "S2-cold-two-lookups-and-length", Threads: 3, Bounds: b3, setup: c17Dir,
			bodies: func(i *c17Inst, n datamodel.Node) []func() string {
				return []func() string{lookupBody(n, i.names[0]), lookupBody(n, i.names[3]), lengthBody(n)}
			}},
		{Name: "S3-iterate-length-lookup", Threads: 3, Bounds: b3, setup: c17Dir,
			bodies: func(i *c17Inst, n datamodel.Node) []func() string {
				return []func() string{iterBody(n), lengthBody(n), lookupBody(n, i.names[2])}
			}},
		{Name: "S3b-two-lengths", Threads: 2, Bounds: b2, setup: c17Dir,
			bodies: func(i *c17Inst, n datamodel.Node) []func() string {
				return []func() string{lengthBody(n), lengthBody(n)}
			}},
		{Name: "S4-warm-lookups-and-length", Threads: 3, Bounds: b3small, setup: c17Dir, prelude: warm,
			bodies: func(i *c17Inst, n datamodel.Node) []func() string {
				return []func() string{lookupBody(n, i.names[0]), lookupBody(n, i.names[1]), lengthBody(n)}
			}},
		{Name: "S4b-warm-iterate-and-lookup-nonmember", Threads: 2, Bounds: b2, setup: c17Dir, prelude: warm,
			bodies: func(i *c17Inst, n datamodel.Node) []func() string {
				return []func() string{iterBody(n), lookupBody(n, "nope")}
			}},
		{Name: "S5-file-two-readers", Threads: 2, Bounds: b2, setup: c17File,
			bodies: func(i *c17Inst, n datamodel.Node) []func() string {
				return []func() string{readAllBody(n, 4), readAllBody(n, 5)}
			}},
		{Name: "S5b-file-readers-and-seek-end", Threads: 3, Bounds: b3small, setup: c17File,
			bodies: func(i *c17Inst, n datamodel.Node) []func() string {
				return []func() string{readAllBody(n, 4), seekEndBody(n), seekEndBody(n)}
			}},
		{Name: "S7-unsized-file-two-readers", Threads: 2, Bounds: b2, setup: c17HandFile,
			bodies: func(i *c17Inst, n datamodel.Node) []func() string {
				return []func() string{readAllBody(n, 4), readAllBody(n, 3)}
			}},
		{Name: "S7b-unsized-file-reader-and-seek-end", Threads: 3, Bounds: b3small, setup: c17HandFile,
			bodies: func(i *c17Inst, n datamodel.Node) []func() string {
				return []func() string{readAllBody(n, 5), seekEndBody(n), readAllBody(n, 2)}
			}},
		{Name: "S8-two-iterators-cold", Threads: 2, Bounds: b2, setup: c17Dir,
			bodies: func(i *c17Inst, n datamodel.Node) []func() string {
				return []func() string{iterBody(n), iterBody(n)}
			}},
		{Name: "S9-plain-dir-iterate-and-lookups", Threads: 3, Bounds: b3small, setup: c17PlainDir,
			bodies: func(i *c17Inst, n datamodel.Node) []func() string {
				return []func() string{iterBody(n), lookupBody(n, i.names[1]), lookupBody(n, "nope")}
			}},
		{Name: "S10-inline-file-readers-and-bytes", Threads: 3, Bounds: b3small, setup: c17InlineFile,
			bodies: func(i *c17Inst, n datamodel.Node) []func() string {
				return []func() string{readAllBody(n, 2), asBytesBody(n), seekEndBody(n)}
			}},
		{Name: "S11-file-bytes-and-reader", Threads: 2, Bounds: b2, setup: c17File,
			bodies: func(i *c17Inst, n datamodel.Node) []func() string {
				return []func() string{asBytesBody(n), readAllBody(n, 6)}
			}},
		{Name: "S12-unavailable-child-shard-two-lookups-and-length", Threads: 3, Bounds: b3small, setup: c17DirMissing,
			bodies: func(i *c17Inst, n datamodel.Node) []func() string {
				return []func() string{lookupBody(n, i.names[0]), lookupBody(n, i.names[1]), lengthBody(n)}
			}},
		{Name: "S13-unavailable-child-shard-iterate-and-lookup", Threads: 2, Bounds: b2, setup: c17DirMissing,
			bodies: func(i *c17Inst, n datamodel.Node) []func() string {
				return []func() string{iterBody(n), lookupBody(n, i.names[2])}
			}},
		{Name: "S14-mixed-width-shard-iterate-lookup-length", Threads: 3, Bounds: b3small, setup: c17MixedShard,
			bodies: func(i *c17Inst, n datamodel.Node) []func() string {
				return []func() string{iterBody(n), lookupBody(n, i.names[0]), lengthBody(n)}
			}},
		// the preloading reification itself (a walk of the whole directory) next
		// to a lookup, with a child shard unavailable: whatever the library runs
		// side by side inside that walk, the outcome is the one a walk alone has
		{Name: "S15-unavailable-child-shard-preload-and-lookup", Threads: 2, Bounds: b2, setup: c17DirMissing,
			bodies: func(i *c17Inst, n datamodel.Node) []func() string {
				preload := func() string {
					p, err := openVia("unixfs-preload", i.ls, i.rootN)
					if err != nil {
						return "preload:error"
					}
					return fmt.Sprintf("preload:ok len=%d", p.Length())
				}
				return []func() string{preload, lookupBody(n, i.names[1])}
			}},
		{Name: "S6-preloaded-file-two-readers", Threads: 2, Bounds: b2, setup: func() *c17Inst { i := c17File(); i.via = "unixfs-preload"; return i },
			bodies: func(i *c17Inst, n datamodel.Node) []func() string {
				return []func() string{readAllBody(n, 3), seekEndBody(n)}
			}},
	}
}

func c17ScenarioByName(name string) (c17Scenario, bool) {
	for _, s := range c17Scenarios(false) {
		if s.Name == name {
			return s, true
		}
	}
	return c17Scenario{}, false
}

// soloResults: what every body returns when run alone on a fresh node.
func c17Solo(sc c17Scenario, inst *c17Inst) []string {
	n0, err := openVia(inst.via, inst.ls, inst.rootN)
	if err != nil {
		panic(err)
	}
	k := len(sc.bodies(inst, n0))
	out := make([]string, k)
	for i := 0; i < k; i++ {
		n, _ := openVia(inst.via, inst.ls, inst.rootN)
		if sc.prelude != nil {
			sc.prelude(n)
		}
		out[i] = sc.bodies(inst, n)[i]()
	}
	return out
}

// c17Epilogue: what is asked of the node after the concurrent phase: the whole
// map (length, iteration, every name) or the whole file.
func c17Epilogue(inst *c17Inst, n datamodel.Node) func() string {
	return func() string {
		if n.Kind() == datamodel.Kind_Map {
			out := lengthBody(n)() + " " + iterBody(n)()
			for _, name := range inst.names {
				out += " " + lookupBody(n, name)()
			}
			return out + " " + lookupBody(n, "nope")()
		}
		return readAllBody(n, 7)() + " " + seekEndBody(n)()
	}
}

var c17EpiSolo = map[string]string{}

func c17EpilogueSolo(sc c17Scenario, inst *c17Inst) string {
	if v, ok := c17EpiSolo[sc.Name]; ok {
		return v
	}
	n, _ := openVia(inst.via, inst.ls, inst.rootN)
	if sc.prelude != nil {
		sc.prelude(n)
	}
	v := c17Epilogue(inst, n)()
	c17EpiSolo[sc.Name] = v
	return v
}

var c17execs int

// c17Exec runs one execution under the given choice prefix and checks the
// oracles; returns the scheduler for statistics.
func c17Exec(sc c17Scenario, inst *c17Inst, shared map[string]bool, prefix []int, viol func(sig, detail string)) (res xplore.Result, promoted map[string]bool) {
	solo := c17Solo(sc, inst)
	var s *sched
	res = xplore.RunOne(prefix, nil, 20000, func(x *xplore.Ctx) string {
		return c17Body(sc, inst, shared, solo, x, viol, &s)
	})
	if s != nil {
		promoted = s.promoted
	}
	return
}

func c17Body(sc c17Scenario, inst *c17Inst, shared map[string]bool, solo []string, x *xplore.Ctx, viol func(sig, detail string), out **sched) string {
	n, err := openVia(inst.via, inst.ls, inst.rootN)
	if err != nil {
		viol("reify-error", err.Error())
		return "reify-error"
	}
	inst.s.OnRead = func(cid.Cid, int) error { schedLoadPoint(); return nil }
	defer func() { inst.s.OnRead = nil }()
	old := debug.SetGCPercent(-1) // no address reuse inside one execution
	var prelude func()
	if sc.prelude != nil {
		prelude = func() { sc.prelude(n) }
	}
	s := runScheduled(x, shared, prelude, sc.bodies(inst, n), c17Epilogue(inst, n))
	debug.SetGCPercent(old)
	c17execs++
	if c17execs%500 == 0 {
		runtime.GC()
	}
	*out = s
	if s.outside() {
		return "unmodelled"
	}
	if s.deadlock != "" {
		viol("deadlock "+sc.Name, fmt.Sprintf("%s: %s (choices %v)", sc.Name, s.deadlock, x.Choices))
	}
	for pair, kind := range s.races {
		viol("data-race "+pair, fmt.Sprintf("%s: unsynchronised conflicting accesses %s [%s] (choices %v)", sc.Name, pair, kind, x.Choices))
	}
	if s.epilogueRan {
		if want := c17EpilogueSolo(sc, inst); s.epilogueResult != want {
			viol("later-use-differs "+sc.Name, fmt.Sprintf("%s: after the concurrent phase the node answers %s, a node used alone answers %s (choices %v)", sc.Name, clipStr(s.epilogueResult, 160), clipStr(want, 160), x.Choices))
		}
	}
	var results []string
	for i, t := range s.threads {
		if t.panicv != nil {
			viol("panic-in-thread "+sc.Name, fmt.Sprintf("%s: T%d panicked: %v (choices %v)", sc.Name, i, t.panicv, x.Choices))
		} else if t.done && t.result != solo[i] {
			viol("result-differs "+sc.Name, fmt.Sprintf("%s: T%d returned %s, alone it returns %s (choices %v)", sc.Name, i, clipStr(t.result, 120), clipStr(solo[i], 120), x.Choices))
		}
		results = append(results, t.result)
	}
	return fmt.Sprintf("races=%d %v", len(s.races), results)
}

func clipStr(s string, n int) string {
	if len(s) > n {
		return s[:n] + "…"
	}
	return s
}

func runC17(r *core.Run) {
	r.Rule("stateless DFS over thread schedules with iterative preemption bounding: real goroutines under a cooperative scheduler, one visible operation at a time (instrumented field accesses at shared sites, modelled Lock/Unlock/Once/atomic operations, every block load); scenarios on one shared node instance, fresh per execution: cold/warm sharded directory with 2-3 threads doing lookups (forced through the same child shard), Length, full iteration; multi-block file with separate readers and seek-to-end; preloaded file. Oracles in every execution: (a) data race = two co-enabled conflicting accesses or a vector-clock happens-before violation over the access log, (b) every call returns what it returns alone, (c) no panic/deadlock. Shared-site set computed as a fixpoint. Plus a separate free-running -race pass over the same bodies")
	if !overlayActive {
		r.InternalError("C17 needs the instrumented overlay build (run through run.sh)")
		return
	}
	instr := os.Getenv("VERIF_INSTR")
	r.Set("instrumentation", instr)
	schedCapRun = r.Cap
	if instr != "full" {
		r.Cap("instrumentation degraded (field hooks / sync shims unavailable): schedule exploration limited to load points")
	}
	if b, err := os.ReadFile(os.Getenv("VERIF_INSTR_REPORT")); err == nil {
		var rep map[string]any
		if json.Unmarshal(b, &rep) == nil {
			r.Set("instrumented_field_accesses", rep["field_rewrites"])
			r.Set("uninstrumented_sites", rep["uninstrumented_sites"])
		}
	}
	// budget per (scenario, bound) exploration: on the pinned tree the largest
	// takes a few seconds (quick) / two minutes (thorough); a change that makes
	// the library start goroutines of its own can multiply the schedule space
	// beyond any bound, and the check then reports what it covered
	perExploration := 45 * time.Second
	overall := time.Now().Add(6 * time.Minute)
	if !r.Quick() {
		perExploration = 15 * time.Minute
		overall = time.Now().Add(75 * time.Minute)
	}
	var stats []map[string]any
	for _, sc := range c17Scenarios(r.Quick()) {
		inst := sc.setup()
		solo := c17Solo(sc, inst)
		shared := map[string]bool{}
		report := func(choices []int) func(sig, detail string) {
			return func(sig, detail string) { r.Violate(sig, detail, c17Replay{sc.Name, append([]int{}, choices...)}) }
		}
		for _, bound := range sc.Bounds {
			// lets the supervising parent say where an unrecoverable crash happened
			fmt.Fprintf(os.Stderr, "BREADCRUMB C17 scenario %s preemption bound %d\n", sc.Name, bound)
			restarts := 0
		again:
			ex := &xplore.Explorer{Bound: bound, Horizon: 20000, Replay: 2, MaxExecs: 600000, Deadline: earlier(time.Now().Add(perExploration), overall), OnDiverge: func(ch []int, a, b string) {
				r.InternalError(fmt.Sprintf("nondeterministic replay %s %v: %q vs %q", sc.Name, ch, a, b))
			}}
			outcomes := map[string]bool{}
			grew := false
			pendingSites := map[string]bool{}
			var last *sched
			ex.Explore(func(x *xplore.Ctx) string {
				return c17Body(sc, inst, shared, solo, x, func(sig, detail string) { report(x.Choices)(sig, detail) }, &last)
			}, func(res xplore.Result) {
				outcomes[res.Obs] = true
				if res.Panic != nil {
					r.Violate("panic scheduler "+sc.Name, fmt.Sprint(res.Panic), c17Replay{sc.Name, res.Choices})
				}
				if last != nil {
					for st := range last.promoted {
						if !shared[st] {
							pendingSites[st] = true
							grew = true
						}
					}
				}
			})
			// the scheduling-point set is only changed between explorations
			// (a replayed prefix must meet the same choice points)
			next := map[string]bool{}
			for st := range shared {
				next[st] = true
			}
			for st := range pendingSites {
				next[st] = true
			}
			shared = next
			r.Evaluations.Add(int64(ex.Stats.Executions))
			r.Traces.Add(int64(ex.Stats.Executions))
			r.Transitions.Add(int64(ex.Stats.ChoicePoints))
			if grew && restarts < 10 {
				restarts++
				goto again // shared-site set grew: explore again with the new scheduling points
			}
			if ex.Stats.Capped {
				r.Cap(fmt.Sprintf("execution / time budget hit: %s bound %d after %d executions", sc.Name, bound, ex.Stats.Executions))
			}
			if ex.Stats.Truncated > 0 {
				r.Cap(fmt.Sprintf("%d truncated executions: %s bound %d", ex.Stats.Truncated, sc.Name, bound))
			}
			bl := fmt.Sprint(bound)
			if bound >= 1000 {
				bl = "unbounded"
			}
			stats = append(stats, map[string]any{"scenario": sc.Name, "threads": sc.Threads, "preemption_bound": bl, "executions": ex.Stats.Executions,
				"max_schedule_points": ex.Stats.MaxDepth, "distinct_outcomes": len(outcomes), "shared_sites": len(shared), "restarts": restarts})
			for o := range outcomes {
				r.Distinct(sc.Name + o)
			}
		}
		r.States.Add(1)
		var sites []string
		for s := range shared {
			sites = append(sites, s)
		}
		sort.Strings(sites)
		r.Sample(map[string]any{"scenario": sc.Name, "solo_results": clipStr(strings.Join(solo, " | "), 300), "shared_sites": sites})
	}
	r.Set("explorations", stats)
	// auxiliary evidence: the free-running -race pass (run.sh runs it first)
	if b, err := os.ReadFile(os.Getenv("VERIF_RACE_LOG")); err == nil {
		reports := strings.Count(string(b), "WARNING: DATA RACE") + strings.Count(string(b), "fatal error: concurrent map")
		r.Set("aux_race_pass", map[string]any{"reports": reports, "log_bytes": len(b)})
		if reports > 0 {
			r.Violate("race-detector-report", fmt.Sprintf("the free-running -race pass printed %d report(s): %s", reports, raceSummary(string(b))), nil)
		}
	} else {
		r.Set("aux_race_pass", "not run")
	}
}

// raceSummary extracts the first module frames of the first race report.
func raceSummary(log string) string {
	var fr []string
	for _, l := range strings.Split(log, "\n") {
		l = strings.TrimSpace(l)
		if strings.HasPrefix(l, "github.com/ipfs/go-unixfsnode") {
			fr = append(fr, strings.TrimPrefix(l, "github.com/ipfs/go-unixfsnode/"))
			if len(fr) == 4 {
				break
			}
		}
	}
	return strings.Join(fr, " ; ")
}

// runC17Race is the free-running pass: the same bodies on real goroutines,
// meant to be built with -race (its output is parsed by runC17).
func runC17Race(r *core.Run) {
	reps := 300
	if !r.Quick() {
		reps = 3000
	}
	for _, sc := range c17Scenarios(false) {
		inst := sc.setup()
		for i := 0; i < reps; i++ {
			n, err := openVia(inst.via, inst.ls, inst.rootN)
			if err != nil {
				continue
			}
			if sc.prelude != nil {
				sc.prelude(n)
			}
			var wg sync.WaitGroup
			start := make(chan struct{})
			for _, b := range sc.bodies(inst, n) {
				b := b
				wg.Add(1)
				go func() {
					defer wg.Done()
					defer func() { recover() }()
					<-start
					b()
				}()
			}
			close(start)
			wg.Wait()
			r.Evaluations.Add(1)
		}
		r.Distinct(sc.Name)
		r.Distinct(sc.Name + "#")
	}
	r.States.Add(1)
	r.Transitions.Add(1)
	r.Sample("free-running repetitions of the C17 scenario bodies")
}

func earlier(a, b time.Time) time.Time {
	if a.Before(b) {
		return a
	}
	return b
}
