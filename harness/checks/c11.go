package checks

import (
	"bytes"
	"encoding/json"
	"fmt"
	"io"
	"os"
	"path/filepath"
	"runtime"
	"runtime/debug"
	"sort"
	"strings"
	"sync"
	"time"

	pb "github.com/ipfs/boxo/ipld/unixfs/pb"
	"github.com/ipfs/go-cid"
	"github.com/ipfs/go-unixfsnode/data/builder"
	quickbuilder "github.com/ipfs/go-unixfsnode/data/builder/quick"
	"github.com/ipld/go-ipld-prime"
	"github.com/ipld/go-ipld-prime/codec"
	"github.com/ipld/go-ipld-prime/datamodel"
	cidlink "github.com/ipld/go-ipld-prime/linking/cid"

	"verif/harness/core"
	"verif/harness/gen"
	"verif/harness/model"
	"verif/harness/store"
	"verif/harness/xplore"
)

func init() {
	Registry["C11"] = runC11
	Replayers["C11"] = func(raw []byte) string {
		var c c11Case
		if err := json.Unmarshal(raw, &c); err != nil {
			return "bad case: " + err.Error()
		}
		var out []string
		c.run(func(sig, detail string) { out = append(out, sig+" :: "+detail) }, nil)
		return joinLines(out)
	}
}

// sizeAudit checks every size recorded in the DAG below root against the
// stored blocks: link Tsize == tree sum of the target, interior file nodes'
// FileSize / BlockSizes == content bytes beneath. Returns the tree sum.
func sizeAudit(s *store.Store, root cid.Cid, viol func(sig, detail string)) (uint64, int) {
	seen := map[string]bool{}
	blocks := 0
	var contentLen func(c cid.Cid) (int64, error)
	contentLen = func(c cid.Cid) (int64, error) {
		t, err := model.FileTree(s, c)
		if err != nil {
			return 0, err
		}
		return t.End - t.Start, nil
	}
	var rec func(c cid.Cid)
	rec = func(c cid.Cid) {
		if seen[c.KeyString()] {
			return
		}
		seen[c.KeyString()] = true
		blk, err := model.Load(s, c)
		if err != nil {
			viol("dangling-link", err.Error())
			return
		}
		blocks++
		if blk.PB == nil {
			return
		}
		for i, l := range blk.PB.Links {
			want, err := model.TreeSum(s, l.Cid)
			if err != nil {
				viol("dangling-link", err.Error())
				continue
			}
			if !l.HasTsize || l.Tsize != want {
				viol("link-tsize", fmt.Sprintf("block %s link %d (%q): Tsize=%d(has=%v) but target tree sum is %d", c, i, l.Name, l.Tsize, l.HasTsize, want))
			}
			rec(l.Cid)
		}
		if blk.FS != nil && (blk.FS.GetType() == pb.Data_File || blk.FS.GetType() == pb.Data_Raw) && len(blk.PB.Links) > 0 {
			total := int64(len(blk.FS.GetData()))
			if len(blk.FS.Blocksizes) != len(blk.PB.Links) {
				viol("blocksizes-count", fmt.Sprintf("block %s: %d block sizes for %d links", c, len(blk.FS.Blocksizes), len(blk.PB.Links)))
			}
			for i, l := range blk.PB.Links {
				n, err := contentLen(l.Cid)
				if err != nil {
					viol("file-child", err.Error())
					continue
				}
				total += n
				if i < len(blk.FS.Blocksizes) && int64(blk.FS.Blocksizes[i]) != n {
					viol("blocksize", fmt.Sprintf("block %s: BlockSizes[%d]=%d but child holds %d content bytes", c, i, blk.FS.Blocksizes[i], n))
				}
			}
			if blk.FS.Filesize == nil || int64(blk.FS.GetFilesize()) != total {
				viol("filesize", fmt.Sprintf("block %s: FileSize=%v but %d content bytes beneath", c, blk.FS.Filesize, total))
			}
		}
	}
	rec(root)
	sum, err := model.TreeSum(s, root)
	if err != nil {
		viol("dangling-link", err.Error())
	}
	return sum, blocks
}

// c11Case is either a file or a directory (of files) build.
type c11Case struct {
	Kind   string   `json:"kind"` // file | sharded | plain | auto | dir-of-files | quick
	File   fileCase `json:"file,omitempty"`
	Fanout int      `json:"fanout,omitempty"`
	Names  []string `json:"names,omitempty"`
	// Kind "concurrent": one schedule of two builds through a shared LinkSystem
	Pair    string   `json:"pair,omitempty"`
	Choices []int    `json:"choices,omitempty"`
	Shared  []string `json:"shared_sites,omitempty"`
}

func (c c11Case) String() string {
	if c.Kind == "file" {
		return "file " + c.File.String()
	}
	if c.Kind == "file-after-failed-write" {
		return fmt.Sprintf("file %s after a build whose write #%d failed", c.File.String(), c.Fanout)
	}
	if c.Kind == "quick" {
		return fmt.Sprintf("quick L=%d", c.File.L)
	}
	if c.Kind == "symlink" {
		return fmt.Sprintf("symlink target of %d bytes", c.File.L)
	}
	if c.Kind == "recursive" {
		if t := c11FsTrees(); c.Fanout < len(t) {
			return "recursive import of " + t[c.Fanout].String()
		}
	}
	return fmt.Sprintf("%s F=%d n=%d %q", c.Kind, c.Fanout, len(c.Names), trimNames(c.Names))
}

// c11FsTrees: on-disk fixtures for the recursive importer (Fanout indexes it).
func c11FsTrees() []fsSpec {
	d := func(ch ...fsSpec) fsSpec { return fsSpec{Kind: "D", Children: ch} }
	k := func(kind string) fsSpec { return fsSpec{Kind: kind} }
	return []fsSpec{
		k("F"), k("E"), k("Lr"), k("LL"), k("LX"), k("M"), d(),
		d(k("F"), k("E"), k("Lr")),
		d(k("LL"), k("F"), k("LX"), d(k("LL"), k("E"))),
		d(d(d(k("F"), k("La")), k("Ld")), k("M")),
		{Kind: "D", NGen: 1111, NameLen: 200, Children: []fsSpec{d(k("F"), k("LL")), k("M")}},
		{Kind: "D", NGen: 1030, NameLen: 255, LongNames: true, Children: []fsSpec{k("F"), k("LL")}},
	}
}

func trimNames(n []string) []string {
	out := make([]string, len(n))
	for i, s := range n {
		if len(s) > 12 {
			s = s[:12] + "…"
		}
		out[i] = s
	}
	return out
}

func (c c11Case) run(viol func(sig, detail string), r *core.Run) {
	if c.Kind == "concurrent" {
		for _, pr := range c11Pairs() {
			if c11PairName(pr) == c.Pair {
				gen.WithWidth(2, func() {
					c11Shared = map[string]bool{}
					for _, st := range c.Shared {
						c11Shared[st] = true
					}
					defer func() { c11Shared = map[string]bool{} }()
					xplore.RunOne(c.Choices, nil, 0, func(x *xplore.Ctx) string { return c11ConcurrentBody(pr, c11Solo(pr), x, viol, nil) })
				})
				return
			}
		}
		viol("harness-bad-case", "unknown pair "+c.Pair)
		return
	}
	var s *store.Store
	var root cid.Cid
	var sz uint64
	var err error
	switch c.Kind {
	case "file-after-failed-write":
		// a build whose k-th storage Write fails (k = Fanout) runs first, in the
		// same process; then the build under audit
		s0 := store.New()
		k := c.Fanout
		s0.OnWrite = func(n int) error {
			if n == k {
				return store.ErrWrite
			}
			return nil
		}
		core.Guard(func() {
			gen.WithWidth(c.File.W, func() { gen.BuildOurs(s0, bytes.NewReader(c.File.content()), c.File.Chunker) })
		})
		s, root, sz, err = c.File.build()
	case "file":
		s, root, sz, err = c.File.build()
	case "sharded":
		s = store.New()
		root, sz, err = gen.OursSharded(s, c.Fanout, gen.Leaves(s, c.Names))
	case "sharded-shared-targets", "plain-shared-targets":
		// several names link the same block: the tree sum counts it per link
		s = store.New()
		es := gen.Leaves(s, c.Names)
		for i := range es {
			es[i].Cid, es[i].Tsize = es[i%2].Cid, es[i%2].Tsize
		}
		if c.Kind == "sharded-shared-targets" {
			root, sz, err = gen.OursSharded(s, c.Fanout, es)
		} else {
			root, sz, err = gen.OursDir(s, es)
		}
	case "plain-dup-names":
		// the entry list repeats names (the builder takes any list): whatever it
		// writes, the returned size is the tree sum of what it wrote
		s = store.New()
		es := gen.Leaves(s, c.Names)
		first, last := es[0], es[len(es)-1]
		es = append(es, gen.DirEntry{Name: first.Name, Cid: last.Cid, Tsize: last.Tsize})
		es = append([]gen.DirEntry{{Name: last.Name, Cid: first.Cid, Tsize: first.Tsize}}, es...)
		root, sz, err = gen.OursDir(s, es)
	case "plain", "auto":
		s = store.New()
		root, sz, err = gen.OursDir(s, gen.Leaves(s, c.Names))
	case "plain-inline", "sharded-inline":
		// every second entry is linked by an identity-multihash CID (the block
		// travels inside the link, `ipfs add --inline`); its Tsize counts like any
		// other
		s = store.New()
		es := gen.Leaves(s, c.Names)
		for i := range es {
			if i%2 == 0 {
				if b, ok := s.Raw(es[i].Cid); ok {
					if ic, ierr := (cid.Prefix{Version: 1, Codec: es[i].Cid.Prefix().Codec, MhType: 0x00, MhLength: -1}).Sum(b); ierr == nil {
						s.Put(ic, b)
						es[i].Cid = ic
					}
				}
			}
		}
		if c.Kind == "sharded-inline" {
			root, sz, err = gen.OursSharded(s, c.Fanout, es)
		} else {
			root, sz, err = gen.OursDir(s, es)
		}
	case "dir-of-files":
		// entries are files built by the file builder with the size it returned
		s = store.New()
		var es []gen.DirEntry
		gen.WithWidth(2, func() {
			for i, n := range c.Names {
				content := gen.Content(3*i+1, 3, []string{"distinct", "equal"}[i%2])
				fc, fsz, ferr := gen.BuildOurs(s, bytes.NewReader(content), "size-3")
				if ferr != nil {
					err = ferr
					return
				}
				es = append(es, gen.DirEntry{Name: n, Cid: fc, Tsize: fsz})
			}
		})
		if err == nil {
			if c.Fanout > 0 {
				root, sz, err = gen.OursSharded(s, c.Fanout, es)
			} else {
				root, sz, err = gen.OursDir(s, es)
			}
		}
	case "symlink":
		// a symlink node whose target has File.L bytes (the dag-pb length
		// prefixes grow at 124 / 16380 bytes)
		s = store.New()
		var l ipld.Link
		l, sz, err = builder.BuildUnixFSSymlink(strings.Repeat("t", c.File.L), s.LinkSystem())
		if err == nil {
			root = l.(cidlink.Link).Cid
		}
	case "recursive":
		// an on-disk tree (C18's fixture machinery) imported recursively
		trees := c11FsTrees()
		if c.Fanout >= len(trees) {
			err = fmt.Errorf("no such fixture")
			break
		}
		var dir string
		dir, err = os.MkdirTemp(scratchBase(), "verif-c11-")
		if err != nil {
			break
		}
		defer os.RemoveAll(dir)
		id := 0
		if err = trees[c.Fanout].materialise(filepath.Join(dir, "root"), &id); err != nil {
			break
		}
		s = store.New()
		var l ipld.Link
		l, sz, err = builder.BuildUnixFSRecursive(filepath.Join(dir, "root"), s.LinkSystem())
		if err == nil {
			root = l.(cidlink.Link).Cid
		}
	case "quick":
		// the quick builder: files of the lengths in File.L (and half of it),
		// single-block and multi-block (default chunker: 256 KiB), in nested map
		// directories; every Node.Size() is audited, not only the root's
		s = store.New()
		if pnk, pv := core.Guard(func() {
			err = quickbuilder.Store(s.LinkSystem(), func(b *quickbuilder.Builder) error {
				check := func(what string, n quickbuilder.Node) {
					nsz, _ := n.Size()
					sum, _ := sizeAudit(s, n.Link().(cidlink.Link).Cid, func(sig, detail string) { viol(sig+" quick", c.String()+" "+what+": "+detail) })
					if uint64(nsz) != sum {
						viol("returned-size quick", fmt.Sprintf("%s: %s reports Size() %d, tree sum of stored blocks is %d", c, what, nsz, sum))
					}
				}
				f1 := b.NewBytesFile(gen.Content(c.File.L, 4096, "distinct"))
				check("file", f1)
				f2 := b.NewBytesFile(gen.Content(c.File.L/2, 4096, "equal"))
				check("half-file", f2)
				inner := b.NewMapDirectory(map[string]quickbuilder.Node{"f2": f2, "f1 again": f1})
				check("inner-dir", inner)
				top := b.NewMapDirectory(map[string]quickbuilder.Node{"a": f1, "d": inner, "z": f2})
				root = top.Link().(cidlink.Link).Cid
				tsz, _ := top.Size()
				sz = uint64(tsz)
				return nil
			})
		}); pnk {
			err = fmt.Errorf("panic: %v", pv)
		}
	default:
		err = fmt.Errorf("unknown kind")
	}
	if err != nil {
		viol("build-error "+c.Kind, fmt.Sprintf("%s: %v", c, err))
		return
	}
	sum, blocks := sizeAudit(s, root, func(sig, detail string) { viol(sig+" "+c.Kind, c.String()+": "+detail) })
	if sz != sum {
		viol("returned-size "+c.Kind, fmt.Sprintf("%s: builder returned size %d, tree sum of stored blocks is %d (root %s)", c, sz, sum, root))
	}
	if r != nil {
		r.States.Add(1)
		r.Transitions.Add(int64(blocks))
	}
}

// c11Concurrent: two builds run through ONE shared *LinkSystem under the
// cooperative scheduler (every storage open / write / commit is a scheduling
// point): whatever the interleaving, each build returns the link and size it
// returns alone, and every recorded size passes the audit.
type c11Build struct {
	name string
	run  func(s *store.Store, ls *ipld.LinkSystem) (ipld.Link, uint64, error)
	// content: for file builds, the bytes the file must read back to
	content []byte
}

func init() { Registry["BUILDRACE"] = runBuildRace }

// runBuildRace is the free-running companion of concurrentBuilds, meant to be
// built with -race (run.sh does that and hands the log to the checks): the same
// pairs of builds on real goroutines, through one shared LinkSystem and
// through two separate ones (builds that share nothing the caller gave them).
// Hand-offs of the cooperative scheduler are happens-before edges that blind
// the detector, and state the builders reach through local variables (a
// package-level hasher assigned to a local) is not a hooked access.
func runBuildRace(r *core.Run) {
	// the detector works on happens-before, not on luck: a few repetitions
	// of each pair in each sharing mode are enough
	reps := 6
	if !r.Quick() {
		reps = 60
	}
	for _, pr := range c11Pairs() {
		for i := 0; i < reps; i++ {
			shared := store.New()
			stores := [2]*store.Store{shared, shared}
			if i%2 == 1 {
				stores = [2]*store.Store{store.New(), store.New()}
			}
			lss := [2]*ipld.LinkSystem{stores[0].LinkSystem(), stores[1].LinkSystem()}
			if i%2 == 0 {
				lss[1] = lss[0]
			}
			var wg sync.WaitGroup
			start := make(chan struct{})
			for k := 0; k < 2; k++ {
				k := k
				wg.Add(1)
				go func() {
					defer wg.Done()
					defer func() { recover() }()
					<-start
					pr[k].run(stores[k], lss[k])
				}()
			}
			close(start)
			wg.Wait()
			r.Evaluations.Add(1)
		}
		r.Distinct(pr[0].name + " || " + pr[1].name)
	}
	r.States.Add(1)
	r.Transitions.Add(1)
	r.Sample("free-running repetitions of the concurrent-build pairs")
}

func c11Pairs() [][2]c11Build {
	fileOf := func(n int, chunker string) c11Build {
		return c11Build{fmt.Sprintf("file-%d-%s", n, chunker), func(s *store.Store, ls *ipld.LinkSystem) (ipld.Link, uint64, error) {
			return builder.BuildUnixFSFile(bytes.NewReader(gen.Content(n, 3, "distinct")), chunker, ls)
		}, gen.Content(n, 3, "distinct")}
	}
	dirOf := func(names ...string) c11Build {
		return c11Build{fmt.Sprintf("dir%q", names), func(s *store.Store, ls *ipld.LinkSystem) (ipld.Link, uint64, error) {
			links, err := gen.PBLinks(gen.Leaves(s, names))
			if err != nil {
				return nil, 0, err
			}
			return builder.BuildUnixFSDirectory(links, ls)
		}, nil}
	}
	shardOf := func(fanout int, names ...string) c11Build {
		return c11Build{fmt.Sprintf("shard-F%d%q", fanout, trimNames(names)), func(s *store.Store, ls *ipld.LinkSystem) (ipld.Link, uint64, error) {
			links, err := gen.PBLinks(gen.Leaves(s, names))
			if err != nil {
				return nil, 0, err
			}
			return builder.BuildUnixFSShardedDirectory(fanout, 0x22, links, ls)
		}, nil}
	}
	symOf := func(n int) c11Build {
		return c11Build{fmt.Sprintf("symlink-%d", n), func(s *store.Store, ls *ipld.LinkSystem) (ipld.Link, uint64, error) {
			return builder.BuildUnixFSSymlink(strings.Repeat("t", n), ls)
		}, nil}
	}
	col := gen.Colliders("k", 12, 3)
	return [][2]c11Build{
		{fileOf(3, "size-3"), fileOf(1000, "size-1000")},
		{fileOf(7, "size-3"), fileOf(2, "size-3")},
		{fileOf(7, "size-3"), fileOf(10, "size-3")},
		{fileOf(13, "size-3"), fileOf(16, "size-2")},
		{fileOf(3, "size-3"), dirOf("a", "bb", "ccc")},
		{symOf(5), fileOf(400, "size-500")},
		{dirOf("x"), dirOf("a long entry name", "b", "c", "d")},
		{shardOf(8, col[0], col[1], "b c"), shardOf(8, col[2], "é", "0", col[0])},
		{shardOf(256, "a", "b"), fileOf(7, "size-3")},
	}
}

var c11execs int

// c11Shared: instrumented sites that are scheduling points (fixpoint over the
// sites seen touched by both builds with at least one of them not a plain
// read); c11Promoted collects candidates during an exploration.
var c11Shared = map[string]bool{}
var c11Promoted = map[string]bool{}

func c11PairName(pr [2]c11Build) string { return pr[0].name + " || " + pr[1].name }

func c11Solo(pr [2]c11Build) [2]string {
	solo := [2]string{}
	for i := 0; i < 2; i++ {
		s := store.New()
		l, sz, err := pr[i].run(s, s.LinkSystem())
		solo[i] = fmt.Sprintf("%v/%d/%v", l, sz, err)
	}
	return solo
}

// c11ConcurrentBody is one scheduled execution (link width must be 2).
func c11ConcurrentBody(pr [2]c11Build, solo [2]string, x *xplore.Ctx, viol func(sig, detail string), post func(s *store.Store, roots [2]ipld.Link, choices []int)) string {
	desc := c11PairName(pr)
	s := store.New()
	ls := s.LinkSystem() // one LinkSystem value, shared by pointer
	point := func() error { schedLoadPoint(); return nil }
	s.OnOpen = func(int) error { return point() }
	s.OnWrite = func(int) error { return point() }
	s.OnCommit = func(int, cid.Cid) error { return point() }
	roots := [2]ipld.Link{}
	body := func(i int) func() string {
		return func() string {
			l, sz, err := pr[i].run(s, ls)
			roots[i] = l
			return fmt.Sprintf("%v/%d/%v", l, sz, err)
		}
	}
	// scheduling points: storage operations and (instrumented build) sync
	// operations; instrumented accesses feed the race oracle only
	oldGC := debug.SetGCPercent(-1) // no address reuse inside one execution (see C17)
	sc := runScheduled(x, c11Shared, nil, []func() string{body(0), body(1)})
	for st := range sc.promoted {
		c11Promoted[st] = true
	}
	debug.SetGCPercent(oldGC)
	c11execs++
	if c11execs%300 == 0 {
		runtime.GC()
	}
	s.OnOpen, s.OnWrite, s.OnCommit = nil, nil, nil
	if sc.outside() {
		return "unmodelled"
	}
	if sc.deadlock != "" {
		viol("deadlock concurrent-builds", desc+": "+sc.deadlock)
	}
	for pair, kind := range sc.races {
		viol("data-race concurrent-builds "+pair, fmt.Sprintf("%s: unsynchronised conflicting accesses %s [%s] (choices %v)", desc, pair, kind, x.Choices))
	}
	if post != nil {
		post(s, roots, x.Choices)
	}
	for i, t := range sc.threads {
		if t.panicv != nil {
			viol("panic concurrent-builds", fmt.Sprintf("%s: build %d: %v (choices %v)", desc, i, t.panicv, x.Choices))
		} else if t.result != solo[i] {
			viol("returned-size concurrent", fmt.Sprintf("%s: build %d returned %s, alone it returns %s (schedule choices %v)", desc, i, t.result, solo[i], x.Choices))
		}
	}
	for i, l := range roots {
		if l != nil {
			sizeAudit(s, l.(cidlink.Link).Cid, func(sig, detail string) {
				viol(sig+" concurrent", fmt.Sprintf("%s: build %d: %s (choices %v)", desc, i, detail, x.Choices))
			})
		}
	}
	return fmt.Sprint(sc.threads[0].result, sc.threads[1].result)
}

func c11Concurrent(r *core.Run) { concurrentBuilds(r, func([2]c11Build) bool { return true }) }

// concurrentBuilds: the shared "two interleaved builds" exploration (used by
// C07, C10 and C11 with their own pair filters).
func concurrentBuilds(r *core.Run, want func(pr [2]c11Build) bool) {
	schedCapRun = r.Cap
	noteDegraded(r)
	// auxiliary evidence: the free-running -race pass over the same pairs
	if b, err := os.ReadFile(os.Getenv("VERIF_RACE_LOG")); err == nil {
		reports := strings.Count(string(b), "WARNING: DATA RACE") + strings.Count(string(b), "fatal error: concurrent map")
		r.Set("aux_race_pass", map[string]any{"reports": reports, "log_bytes": len(b)})
		if reports > 0 {
			r.Violate("race-detector-report concurrent-builds", fmt.Sprintf("two builds side by side (one shared LinkSystem / nothing shared): the free-running -race pass printed %d report(s): %s", reports, raceSummary(string(b))), nil)
		}
	} else {
		r.Set("aux_race_pass", "not run")
	}
	var execs int64
	for _, pr := range c11Pairs() {
		pr := pr
		if !want(pr) {
			continue
		}
		desc := c11PairName(pr)
		ex := &xplore.Explorer{Bound: 2, Horizon: 4000, Replay: 2, MaxExecs: 200000, Deadline: time.Now().Add(exploreBudget(r.Quick())), OnDiverge: func(ch []int, a, b string) {
			r.InternalError(fmt.Sprintf("C11 concurrent: nondeterministic replay %s %v: %q vs %q", desc, ch, a, b))
		}}
		gen.WithWidth(2, func() {
			solo := c11Solo(pr)
			c11Shared = map[string]bool{}
			for round := 0; round < 5; round++ {
				c11Promoted = map[string]bool{}
				sharedNow := sortedKeys(c11Shared)
				ex.Explore(func(x *xplore.Ctx) string {
					return c11ConcurrentBody(pr, solo, x, func(sig, detail string) {
						r.Violate(sig, detail, c11Case{Kind: "concurrent", Pair: desc, Choices: append([]int{}, x.Choices...), Shared: sharedNow})
					}, nil)
				}, func(res xplore.Result) {
					if res.Panic != nil {
						r.Violate("panic scheduler", fmt.Sprint(res.Panic), nil)
					}
				})
				execs += int64(ex.Stats.Executions)
				grew := false
				next := map[string]bool{}
				for k := range c11Shared {
					next[k] = true
				}
				for k := range c11Promoted {
					if !next[k] {
						next[k], grew = true, true
					}
				}
				if !grew {
					break
				}
				c11Shared = next // only between explorations: replays stay deterministic
			}
			r.Set("concurrent_shared_sites "+desc, sortedKeys(c11Shared))
			c11Shared = map[string]bool{}
		})
		r.Transitions.Add(int64(ex.Stats.ChoicePoints))
		r.States.Add(1)
		r.Distinct("concurrent " + desc)
		if ex.Stats.Capped {
			r.Cap("execution cap hit for concurrent " + desc)
		}
	}
	r.Evaluations.Add(execs)
	r.Set("concurrent_build_schedules", execs)
	r.Set("concurrent_build_preemption_bound", 2)
}

// c11Framing: sizes are those of the blocks as stored, whatever the link
// system's codecs do to them. The same builds through a link system whose raw
// codec frames every leaf (a 12-byte header, as a sealing / encrypting /
// compressing store would add; its decoder strips it again) and, separately,
// whose dag-pb codec appends trailing padding the decoder ignores: the
// returned size and every link's Tsize must still be the cumulative length of
// the stored blocks beneath.
func c11Framing(r *core.Run) {
	header := []byte("SEALED-v1..\n")
	n := 0
	for _, frame := range []string{"raw"} {
		for _, fc := range []fileCase{
			{Writer: "ours", W: 2, Chunker: "size-3", L: 3, K: 3, Pattern: "distinct"},
			{Writer: "ours", W: 2, Chunker: "size-3", L: 7, K: 3, Pattern: "distinct"},
			{Writer: "ours", W: 2, Chunker: "size-3", L: 13, K: 3, Pattern: "distinct"},
			{Writer: "ours", W: 3, Chunker: "size-2", L: 20, K: 2, Pattern: "distinct"},
			{Writer: "ours", W: 2, Chunker: "size-3", L: 0, K: 3, Pattern: "distinct"},
			{Writer: "ours", W: 174, Chunker: "size-1", L: 200, K: 1, Pattern: "distinct"},
		} {
			s := store.New()
			ls := s.LinkSystem()
			inner := ls.EncoderChooser
			ls.EncoderChooser = func(lp datamodel.LinkPrototype) (codec.Encoder, error) {
				enc, err := inner(lp)
				if err != nil {
					return nil, err
				}
				if clp, ok := lp.(cidlink.LinkPrototype); ok && clp.Codec == cid.Raw {
					return func(nd datamodel.Node, w io.Writer) error {
						if _, err := w.Write(header); err != nil {
							return err
						}
						return enc(nd, w)
					}, nil
				}
				return enc, nil
			}
			var root cid.Cid
			var sz uint64
			var err error
			gen.WithWidth(fc.W, func() {
				var l ipld.Link
				l, sz, err = builder.BuildUnixFSFile(bytes.NewReader(fc.content()), fc.Chunker, ls)
				if err == nil && l != nil {
					root = l.(cidlink.Link).Cid
				}
			})
			n++
			desc := fmt.Sprintf("file %s through a link system whose %s codec adds a %d-byte frame to every block", fc, frame, len(header))
			if err != nil || !root.Defined() {
				r.Violate("build-error framing", fmt.Sprintf("%s: %v", desc, err), nil)
				continue
			}
			// cumulative stored size, from the stored bytes
			var cum func(c cid.Cid) (uint64, bool)
			cum = func(c cid.Cid) (uint64, bool) {
				b, ok := s.Raw(c)
				if !ok {
					return 0, false
				}
				total := uint64(len(b))
				if c.Prefix().Codec != cid.DagProtobuf {
					return total, true
				}
				pn, err := model.DecodePB(b)
				if err != nil {
					return 0, false
				}
				for i, l := range pn.Links {
					cs, ok := cum(l.Cid)
					if !ok {
						return 0, false
					}
					if !l.HasTsize || l.Tsize != cs {
						r.Violate("link-tsize framing", fmt.Sprintf("%s: block %s link %d -> %s carries Tsize %d (present=%v), the blocks stored beneath it total %d bytes", desc, short(c), i, short(l.Cid), l.Tsize, l.HasTsize, cs), nil)
					}
					total += cs
				}
				return total, true
			}
			want, ok := cum(root)
			if !ok {
				r.Violate("harness framing", desc+": stored DAG unreadable", nil)
				continue
			}
			if sz != want {
				r.Violate("returned-size framing", fmt.Sprintf("%s: builder returned size %d, the stored blocks total %d bytes", desc, sz, want), nil)
			}
		}
	}
	r.Evaluations.Add(int64(n))
	r.Set("framing_link_system_builds", n)
}

func runC11(r *core.Run) {
	c11Framing(r)
	c11NoWriteStorage(r)
	c11Concurrent(r)
	r.Rule("bounded-exhaustive: every file shape of the small family (distinct and equal chunks: de-duplicated storage < tree sum), every subset of the name universe as sharded directory at each fanout, plain directories, directories of builder-written files; oracle = independent recursive tree sum / content count over stored blocks (own dag-pb parser + gogo unixfs_pb); distinct = distinct cases")
	var cases []c11Case
	var files []fileCase
	if r.Quick() {
		files = smallFileFamily([]int{2, 3, 4}, []int{3}, []string{"distinct", "equal"}, []string{"ours"})
		files = append(files, smallFileFamily([]int{2}, []int{1}, []string{"distinct", "equal"}, []string{"ours"})...)
	} else {
		files = smallFileFamily([]int{2, 3, 4, 5}, []int{1, 3, 4}, []string{"distinct", "equal"}, []string{"ours"})
		for _, n := range []int{174, 175, 174*174 + 1} {
			files = append(files, fileCase{Writer: "ours", W: 174, Chunker: "size-1", L: n, K: 1, Pattern: "equal"})
		}
	}
	for _, ch := range []string{"", "rabin-16-24-40", "buzhash"} {
		for _, L := range []int{0, 1, 77, 300000} {
			files = append(files, fileCase{Writer: "ours", W: 3, Chunker: ch, L: L, K: 7, Pattern: "distinct"})
		}
	}
	for _, f := range files {
		cases = append(cases, c11Case{Kind: "file", File: f})
	}
	for i, f := range files {
		if i%7 == 0 && f.L > 0 {
			for k := 0; k < 3; k++ {
				cases = append(cases, c11Case{Kind: "file-after-failed-write", File: f, Fanout: k})
			}
		}
	}
	usize := 9
	fanouts := []int{8, 16, 256, 1024}
	if !r.Quick() {
		usize = 12
		fanouts = []int{8, 16, 32, 64, 128, 256, 512, 1024}
	}
	u := gen.Universe(usize)
	for mask := 0; mask < 1<<uint(len(u)); mask++ {
		names := gen.SubsetOf(u, mask)
		if mask > 0 {
			for _, f := range fanouts {
				cases = append(cases, c11Case{Kind: "sharded", Fanout: f, Names: names})
			}
		}
		if mask < 512 {
			cases = append(cases, c11Case{Kind: "plain", Names: names})
		}
		if mask > 0 && mask < 64 {
			cases = append(cases, c11Case{Kind: "plain-dup-names", Names: names})
		}
		if mask > 0 && mask < 64 {
			cases = append(cases, c11Case{Kind: "plain-inline", Names: names}, c11Case{Kind: "sharded-inline", Fanout: 8, Names: names})
		}
		if mask > 2 && mask < 256 {
			cases = append(cases, c11Case{Kind: "plain-shared-targets", Names: names}, c11Case{Kind: "sharded-shared-targets", Fanout: 8, Names: names})
		}
		if mask > 0 && mask < 128 {
			cases = append(cases, c11Case{Kind: "dir-of-files", Names: names})
			cases = append(cases, c11Case{Kind: "dir-of-files", Fanout: 8, Names: names})
		}
	}
	for _, L := range []int{1, 2, 100, 122, 123, 124, 125, 126, 127, 128, 129, 300, 4000, 16375, 16376, 16377, 16378, 16379, 16380, 16381, 16382, 16383, 16384, 16390, 70000} {
		cases = append(cases, c11Case{Kind: "symlink", File: fileCase{L: L}})
	}
	for i := range c11FsTrees() {
		cases = append(cases, c11Case{Kind: "recursive", Fanout: i})
	}
	for _, L := range []int{0, 1, 2, 262144, 262145, 262146, 524288, 524290, 800000} {
		cases = append(cases, c11Case{Kind: "quick", File: fileCase{L: L}})
	}
	// a prefix of the entries sums to exactly the threshold, more entries follow
	cases = append(cases, c11Case{Kind: "auto", Names: append(thresholdNames(262144), "zz-one-more", "zz-and-another")},
		c11Case{Kind: "auto", Names: append([]string{"aa-first"}, thresholdNames(262144)...)})
	// auto-selecting builder straddling the shard threshold
	cases = append(cases, c11Case{Kind: "auto", Names: thresholdNames(262144)}, c11Case{Kind: "auto", Names: thresholdNames(262145)})
	sort.SliceStable(cases, func(i, j int) bool { return cases[i].File.W < cases[j].File.W })
	core.ParallelFor(len(cases), workers, func(i int) {
		c := cases[i]
		r.Evaluations.Add(1)
		r.Distinct(c.String())
		if i%499 == 0 {
			r.Sample(c.String())
		}
		rc := c
		if len(rc.Names) > 40 {
			rc.Names = nil // replay regenerates threshold sets from the kind; too large to store
		}
		c.run(func(sig, detail string) { r.Violate(sig, detail, rc) }, r)
	})
}

// thresholdNames returns distinct names such that estimateDirSize (sum of name
// lengths + 36 bytes per CIDv1 link) is exactly `target`.
func thresholdNames(target int) []string {
	const per = 200 + 36
	n := target / per
	rest := target - n*per
	var out []string
	for i := 0; i < n; i++ {
		out = append(out, fmt.Sprintf("%0200d", i))
	}
	// adjust: spread the remainder by lengthening/shortening the last names
	for rest >= per {
		rest -= per
	}
	if rest > 36 {
		out = append(out, fmt.Sprintf("r%0*d", rest-36-1, 7))
	} else if rest > 0 {
		// lengthen the last name by rest bytes
		out[len(out)-1] = out[len(out)-1] + fmt.Sprintf("%0*d", rest, 0)
	}
	return out
}


// c11NoWriteStorage: the builders run through a link system that has no
// write storage (a caller that only wants the CID). Whatever they do then -
// refuse, as this library does, or compute - a size and link they return must
// be the ones the same build returns when it stores its blocks.
func c11NoWriteStorage(r *core.Run) {
	type res struct {
		l   string
		sz  uint64
		err error
	}
	run := func(f func(ls *ipld.LinkSystem) (ipld.Link, uint64, error), ls *ipld.LinkSystem) (out res) {
		if p, pv := core.Guard(func() {
			l, sz, err := f(ls)
			out = res{"", sz, err}
			if l != nil {
				out.l = l.String()
			}
		}); p {
			out.err = fmt.Errorf("panic: %v", pv)
		}
		return
	}
	s0 := store.New()
	leaves := gen.Leaves(s0, []string{"a", "b", "c"})
	links, err := gen.PBLinks(leaves)
	if err != nil {
		r.InternalError("PBLinks: " + err.Error())
		return
	}
	type job struct {
		name string
		f    func(ls *ipld.LinkSystem) (ipld.Link, uint64, error)
	}
	var jobs []job
	for _, L := range []int{0, 3, 7, 13} {
		L := L
		jobs = append(jobs, job{fmt.Sprintf("BuildUnixFSFile(%d bytes, size-3)", L), func(ls *ipld.LinkSystem) (ipld.Link, uint64, error) {
			data := fileCase{L: L, K: 3, Pattern: "distinct"}.content()
			var l ipld.Link
			var sz uint64
			var err error
			gen.WithWidth(2, func() { l, sz, err = builder.BuildUnixFSFile(bytes.NewReader(data), "size-3", ls) })
			return l, sz, err
		}})
	}
	jobs = append(jobs,
		job{"BuildUnixFSDirectory(3 entries)", func(ls *ipld.LinkSystem) (ipld.Link, uint64, error) {
			return builder.BuildUnixFSDirectory(links, ls)
		}},
		job{"BuildUnixFSDirectory(0 entries)", func(ls *ipld.LinkSystem) (ipld.Link, uint64, error) {
			return builder.BuildUnixFSDirectory(nil, ls)
		}},
		job{"BuildUnixFSShardedDirectory(8, 3 entries)", func(ls *ipld.LinkSystem) (ipld.Link, uint64, error) {
			return builder.BuildUnixFSShardedDirectory(8, 0x22, links, ls)
		}},
		job{"BuildUnixFSSymlink", func(ls *ipld.LinkSystem) (ipld.Link, uint64, error) {
			return builder.BuildUnixFSSymlink("../target", ls)
		}},
	)
	n := 0
	for _, j := range jobs {
		stored := run(j.f, store.New().LinkSystem())
		bare := cidlink.DefaultLinkSystem() // no StorageWriteOpener, no StorageReadOpener
		got := run(j.f, &bare)
		n += 2
		r.Evaluations.Add(2)
		if stored.err != nil {
			r.Violate("build-error no-write-storage-baseline", fmt.Sprintf("%s into a store: %v", j.name, stored.err), nil)
			continue
		}
		if got.err != nil {
			if got.l != "" {
				r.Violate("link-with-error no-write-storage", fmt.Sprintf("%s without write storage: link %s together with error %v", j.name, got.l, got.err), nil)
			}
			continue // refusing is fine
		}
		if got.l != stored.l || got.sz != stored.sz {
			r.Violate("size-differs no-write-storage", fmt.Sprintf("%s without write storage returns (%s, %d); the same build into a store returns (%s, %d)", j.name, got.l, got.sz, stored.l, stored.sz), nil)
		}
	}
	r.Set("no_write_storage_builds", n)
}
