package checks

import (
	"bytes"
	"encoding/json"
	"errors"
	"fmt"
	"io"
	"strings"

	"github.com/ipfs/go-cid"
	"github.com/ipld/go-ipld-prime/datamodel"
	basicnode "github.com/ipld/go-ipld-prime/node/basic"

	"verif/harness/core"
	"verif/harness/gen"
	"verif/harness/model"
	"verif/harness/store"
	"verif/harness/xplore"
)

func init() {
	Registry["C12"] = runC12
	Replayers["C12"] = func(raw []byte) string {
		var c c12Replay
		if err := json.Unmarshal(raw, &c); err != nil {
			return "bad case: " + err.Error()
		}
		var out []string
		c.run(func(sig, detail string) { out = append(out, sig+" :: "+detail) })
		return joinLines(out)
	}
}

// c12Replay: a DAG plus a fault plan.
type c12Replay struct {
	Case    c05Case  `json:"case"`
	Missing []string `json:"missing,omitempty"` // cid strings
	Kind    int      `json:"kind,omitempty"`
	Choices []int    `json:"choices,omitempty"` // transient fault plan (xplore choices)
}

func (c c12Replay) run(viol func(sig, detail string)) {
	d, err := c12Build(c.Case)
	if err != nil {
		viol("build-error", err.Error())
		return
	}
	if c.Choices != nil {
		res := xplore.RunOne(c.Choices, nil, 0, func(x *xplore.Ctx) string { return d.transient(x, viol) })
		if res.Panic != nil {
			viol("panic transient", fmt.Sprint(res.Panic))
		}
		return
	}
	miss := map[string]bool{}
	for _, m := range c.Missing {
		cc, err := cid.Decode(m)
		if err == nil {
			miss[cc.KeyString()] = true
		}
	}
	d.static(miss, store.ErrKind(c.Kind), viol, nil)
}

type c12Dag struct {
	// sized: every interior node records the size of each child (BlockSizes for
	// dag-pb children, Tsize for raw leaves), so the reader can position itself
	// without opening children. Without that a reader has to open later
	// children early, and "the bytes preceding the span" becomes "a correct
	// prefix no longer than that".
	sized bool
	// mayRefuse: the DAG is decodable but irregular (child shards of another
	// fanout than their parent); the library refuses it on some routes
	// (ErrShardWidthMismatch in the iterator). A refusal is not a violation;
	// fetching entry blocks or succeeding with unloaded shards still is.
	mayRefuse bool
	// optionalFail: positions of withheld empty-span blocks (per static run)
	optionalFail []int64
	c            c05Case
	s            *store.Store
	root         cid.Cid
	tree         *model.FileNode  // files
	hm           *model.ShardNode // shards
	content      []byte
	blocks       []cid.Cid // distinct non-root blocks of the entity
}

func c12Build(c c05Case) (*c12Dag, error) {
	d := &c12Dag{c: c}
	var err error
	switch c.Kind {
	case "file", "hand":
		d.s, d.root, err = c.buildFile()
		if err != nil {
			return nil, err
		}
		d.tree, err = model.FileTree(d.s, d.root)
		if err != nil {
			return nil, err
		}
		d.content = d.tree.Content()
		d.blocks = store.FirstReads(d.tree.DFS()[1:])
		d.sized = true
		if c.Kind == "hand" {
			if spec, ok := gen.HandByLabel(c.Hand); ok && !spec.Sized() {
				d.sized = false
			}
		}
	case "shard":
		d.s = store.New()
		es := gen.Leaves(d.s, c.Names)
		if c.Ref {
			d.root, _, err = gen.RefShard(d.s, c.Fanout, es)
		} else {
			d.root, _, err = gen.OursSharded(d.s, c.Fanout, es)
		}
		if err != nil {
			return nil, err
		}
		d.hm, err = model.Hamt(d.s, d.root)
		if err != nil {
			return nil, err
		}
		d.blocks = store.FirstReads(d.hm.Shards())
	case "handshard":
		spec, ok := gen.HandShards()[c.Hand]
		if !ok {
			return nil, fmt.Errorf("unknown hand-written shard DAG %q", c.Hand)
		}
		d.s = store.New()
		d.mayRefuse = strings.HasPrefix(c.Hand, "mixed") || strings.HasPrefix(c.Hand, "irregular")
		d.root, _ = spec.Build(d.s)
		d.hm, err = model.Hamt(d.s, d.root)
		if err != nil {
			return nil, err
		}
		d.blocks = store.FirstReads(d.hm.Shards())
	default:
		return nil, fmt.Errorf("unsupported kind %q", c.Kind)
	}
	return d, nil
}

func isLoadError(err error, k store.ErrKind) bool {
	if err == nil || err == io.EOF || errors.Is(err, io.EOF) {
		return false
	}
	return store.IsInjected(err)
}

// seqReadOracle reads the file sequentially with the given buffer size and
// checks the prefix/error contract. firstFail is the byte offset at which the
// first withheld block is needed (-1: none).
func (d *c12Dag) seqRead(n datamodel.Node, buf int, firstFail int64, what string, viol func(sig, detail string)) {
	var got []byte
	var err error
	if buf == 0 {
		got, err = n.AsBytes()
	} else {
		lb, ok := n.(datamodel.LargeBytesNode)
		if !ok {
			return
		}
		rs, rerr := lb.AsLargeBytes()
		if rerr != nil {
			viol("aslargebytes-error", rerr.Error())
			return
		}
		got, err = readAllBuf(rs, buf, 8*len(d.content)+64)
		// the same reader after the error: rewound, it delivers the same prefix
		// and the load error again (an error is not a state of the reader); from
		// inside the prefix it delivers the rest of the prefix
		if d.sized && d.c.Kind == "file" && err != nil && err != io.EOF && store.IsInjected(err) {
			// reading on without a Seek: the block is still unavailable, so
			// nothing more may be delivered (least of all bytes from behind the
			// hole) and the stream may not end cleanly
			for k := 0; k < 3; k++ {
				more := make([]byte, buf)
				nn, err2 := rs.Read(more)
				if nn > 0 || err2 == nil || err2 == io.EOF || !store.IsInjected(err2) {
					viol("read-on-after-load-error", fmt.Sprintf("%s %s buf=%d: first pass %d bytes then %q; Read #%d after that (no Seek) returns (%d, %v) %s, want (0, the load error)", d.c, what, buf, len(got), err, k+1, nn, err2, clip(more[:nn], 12)))
					break
				}
			}
			for _, from := range []int64{0, int64(len(got)) / 2} {
				if _, serr := rs.Seek(from, io.SeekStart); serr != nil {
					viol("seek-after-load-error", fmt.Sprintf("%s %s buf=%d: Seek(%d) after a load error: %v", d.c, what, buf, from, serr))
					break
				}
				got2, err2 := readAllBuf(rs, buf, 8*len(d.content)+64)
				if !bytes.Equal(got2, got[from:]) || err2 == nil || err2 == io.EOF || !store.IsInjected(err2) {
					viol("reread-after-load-error", fmt.Sprintf("%s %s buf=%d: first pass %d bytes then %q; after Seek(%d) the same reader gives %d bytes then %v, want the %d bytes up to the missing block and the load error", d.c, what, buf, len(got), err, from, len(got2), err2, int64(len(got))-from))
					break
				}
			}
		}
	}
	mode := fmt.Sprintf("buf=%d", buf)
	// a withheld block with an empty byte span: the reader may open it when it
	// gets to its position (then the load error after exactly the preceding
	// bytes is right) or never need it; both are fine
	for _, p := range d.optionalFail {
		if (firstFail < 0 || p <= firstFail) && err != nil && err != io.EOF && store.IsInjected(err) &&
			(int64(len(got)) == p || (!d.sized && int64(len(got)) < p)) && bytes.Equal(got, d.content[:len(got)]) {
			return
		}
	}
	if firstFail < 0 {
		if err != nil || !bytes.Equal(got, d.content) {
			viol("read-without-fault", fmt.Sprintf("%s %s %s: err=%v got %d bytes want %d", d.c, what, mode, err, len(got), len(d.content)))
		}
		return
	}
	if err == nil {
		viol("missing-block-no-error "+mode, fmt.Sprintf("%s %s: read returned %d bytes and no error although a needed block is unavailable (content %d bytes, first needed at %d)", d.c, what, len(got), len(d.content), firstFail))
		return
	}
	if err == io.EOF {
		viol("missing-block-eof "+mode, fmt.Sprintf("%s %s: EOF instead of the load error", d.c, what))
		return
	}
	if !store.IsInjected(err) {
		viol("missing-block-wrong-error "+mode, fmt.Sprintf("%s %s: error %q does not carry the load error", d.c, what, err))
	}
	if d.sized && !bytes.Equal(got, d.content[:firstFail]) {
		viol("missing-block-prefix "+mode, fmt.Sprintf("%s %s: got %d bytes %s before the error, want exactly the %d bytes preceding the missing block's span", d.c, what, len(got), clip(got, 12), firstFail))
	}
	if !d.sized && (int64(len(got)) > firstFail || !bytes.Equal(got, d.content[:len(got)])) {
		viol("missing-block-prefix-unsized "+mode, fmt.Sprintf("%s %s: got %d bytes %s before the error; not a correct prefix of at most %d bytes", d.c, what, len(got), clip(got, 12), firstFail))
	}
}

// static checks one static missing set.
func (d *c12Dag) static(miss map[string]bool, kind store.ErrKind, viol func(sig, detail string), r *core.Run) {
	d.s.Missing = map[string]store.ErrKind{}
	var missList []string
	for _, b := range d.blocks {
		if miss[b.KeyString()] {
			d.s.Missing[string(b.Hash())] = kind
			missList = append(missList, short(b))
		}
	}
	defer func() { d.s.Missing = map[string]store.ErrKind{} }()
	what := fmt.Sprintf("missing{%s} kind=%d", strings.Join(missList, ","), kind)
	ls := lsFor(d.s)
	rn, err := loadRoot(ls, d.root)
	if err != nil {
		viol("load-root", err.Error())
		return
	}
	n, err := openVia("unixfs", ls, rn)
	if err != nil {
		viol("reify-error", fmt.Sprintf("%s: %v", d.c, err))
		return
	}
	if d.tree != nil {
		first := d.tree.FirstSpanOf(miss)
		d.optionalFail = d.tree.EmptyStarts(miss)
		if _, ok := n.(datamodel.LargeBytesNode); !ok {
			return
		}
		for _, buf := range []int{0, 1, 3, len(d.content) + 1} {
			if p, pv := core.Guard(func() { d.seqRead(n, buf, first, what, viol) }); p {
				viol("panic read-with-missing", fmt.Sprintf("%s %s: %v", d.c, what, pv))
			}
			if r != nil {
				r.Transitions.Add(1)
			}
		}
		// the same through a link system that reifies every node it loads
		// (NodeReifier = unixfsnode.Reify): interior file nodes reach the reader
		// already interpreted
		if len(miss) <= 2 && d.c.Kind == "file" {
			lsr := lsReifying(d.s)
			if rn2, err := loadRoot(lsr, d.root); err == nil {
				if _, ok := rn2.(datamodel.LargeBytesNode); ok {
					for _, buf := range []int{1, 3} {
						if p, pv := core.Guard(func() {
							d.seqRead(rn2, buf, first, what+" reifying-linksystem", func(sig, detail string) { viol(sig+" reifying-linksystem", detail) })
						}); p {
							viol("panic read-with-missing reifying-linksystem", fmt.Sprintf("%s %s: %v", d.c, what, pv))
						}
						if r != nil {
							r.Transitions.Add(1)
						}
					}
				}
			}
		}
		return
	}
	// sharded directory
	all := map[string]string{}
	for _, e := range d.hm.Entries() {
		all[e.Name] = e.Cid.String()
	}
	queries := append(append([]string{}, gen.Universe(13)...), "nope")
	for _, q := range queries {
		path, found := d.hm.HashPath(q)
		blocked := false
		for _, p := range path {
			if miss[p.KeyString()] {
				blocked = true
				break // shards below a withheld one are never reached
			}
		}
		for _, cold := range []bool{true, false} {
			nn := n
			if cold {
				nn, _ = openVia("unixfs", ls, rn)
			}
			var v datamodel.Node
			var err error
			if p, pv := core.Guard(func() { v, err = nn.LookupByString(q) }); p {
				viol("panic lookup-with-missing", fmt.Sprintf("%s %s lookup(%q): %v", d.c, what, q, pv))
				continue
			}
			if r != nil {
				r.Transitions.Add(1)
			}
			switch {
			case blocked:
				if err == nil {
					viol("missing-shard-lookup-value", fmt.Sprintf("%s %s: lookup(%q) returned a value although a shard on its hash path is unavailable", d.c, what, q))
				} else if !store.IsInjected(err) {
					viol("missing-shard-lookup-notfound", fmt.Sprintf("%s %s: lookup(%q) returned %q instead of the load error", d.c, what, q, err))
				}
			case found != nil:
				if err != nil {
					viol("lookup-spurious-error", fmt.Sprintf("%s %s: lookup(%q): %v (hash path fully available)", d.c, what, q, err))
				} else if l, _ := v.AsLink(); l == nil || l.String() != found.Cid.String() {
					viol("lookup-wrong-link", fmt.Sprintf("%s %s: lookup(%q) = %v", d.c, what, q, l))
				}
			default:
				if err == nil || store.IsInjected(err) {
					viol("lookup-nonmember", fmt.Sprintf("%s %s: lookup(%q) err=%v, want not-found", d.c, what, q, err))
				}
			}
			// the other error-returning entry points (by node with a plain and
			// with a dag-pb typed key -- the type the directory's own iterators
			// hand out --, by segment): a lookup across an unavailable shard
			// reports the load error through each of them
			if blocked {
				for _, ep := range []struct {
					name string
					f    func() (datamodel.Node, error)
				}{
					{"LookupByNode(basicnode string)", func() (datamodel.Node, error) { return nn.LookupByNode(basicnode.NewString(q)) }},
					{"LookupByNode(dagpb string)", func() (datamodel.Node, error) { return nn.LookupByNode(pbString(q)) }},
					{"LookupBySegment", func() (datamodel.Node, error) { return nn.LookupBySegment(datamodel.PathSegmentOfString(q)) }},
				} {
					var v2 datamodel.Node
					var err2 error
					if p, pv := core.Guard(func() { v2, err2 = ep.f() }); p {
						viol("panic lookup-with-missing", fmt.Sprintf("%s %s %s(%q): %v", d.c, what, ep.name, q, pv))
						continue
					}
					_ = v2
					if err2 == nil {
						viol("missing-shard-lookup-value", fmt.Sprintf("%s %s: %s(%q) returned a value although a shard on its hash path is unavailable", d.c, what, ep.name, q))
					} else if !store.IsInjected(err2) {
						viol("missing-shard-lookup-notfound", fmt.Sprintf("%s %s: %s(%q) returned %q instead of the load error", d.c, what, ep.name, q, err2))
					}
				}
			}
			// native lookup: never a wrong value, never a panic
			if nd, ok := nn.(nativeDir); ok {
				if p, pv := core.Guard(func() {
					l := nd.Lookup(pbString(q))
					if l != nil && (found == nil || l.Link().String() != found.Cid.String()) {
						viol("native-lookup-wrong", fmt.Sprintf("%s %s: Lookup(%q) = %v", d.c, what, q, l.Link()))
					}
				}); p {
					viol("panic native-lookup", fmt.Sprintf("%s %s: %v", d.c, what, pv))
				}
			}
		}
	}
	// iteration
	wantEntries, wantErrs := iterModel(d.hm, func(c cid.Cid, nth int) bool { return miss[c.KeyString()] })
	nn, _ := openVia("unixfs", ls, rn)
	d.checkIteration(nn, wantEntries, wantErrs, what, viol)
	if r != nil {
		r.Transitions.Add(1)
	}
	if p, pv := core.Guard(func() {
		nn2, _ := openVia("unixfs", ls, rn)
		got := nn2.Length()
		if got != int64(len(all)) && got != 0 {
			viol("length-wrong-with-missing", fmt.Sprintf("%s %s: Length()=%d, total %d", d.c, what, got, len(all)))
		}
		if len(missList) == 0 && got != int64(len(all)) {
			viol("length-wrong", fmt.Sprintf("%s: Length()=%d want %d", d.c, got, len(all)))
		}
	}); p {
		viol("panic length-with-missing", fmt.Sprintf("%s %s: %v", d.c, what, pv))
	}
}

// iterModel walks the model in depth-first link order; fails(c,nth) says
// whether the nth shard load (0-based) fails. Returns the entries reachable
// and the number of errors met.
func iterModel(hm *model.ShardNode, fails func(c cid.Cid, nth int) bool) (map[string]string, int) {
	entries := map[string]string{}
	errs := 0
	loads := 0
	var rec func(n *model.ShardNode)
	rec = func(n *model.ShardNode) {
		for _, l := range n.Links {
			if l.Child == nil {
				entries[l.Entry] = l.Cid.String()
				continue
			}
			nth := loads
			loads++
			if fails(l.Child.Cid, nth) {
				errs++
				continue
			}
			rec(l.Child)
		}
	}
	rec(hm)
	return entries, errs
}

func (d *c12Dag) checkIteration(n datamodel.Node, want map[string]string, wantErrs int, what string, viol func(sig, detail string)) {
	var pairs []kv
	var errs []error
	var term bool
	if p, pv := core.Guard(func() { pairs, errs, term = iterateMap(n, 8*len(d.c.Names)+64) }); p {
		viol("panic iterate-with-missing", fmt.Sprintf("%s %s: %v", d.c, what, pv))
		return
	}
	if !term {
		viol("iterate-nonterminating", fmt.Sprintf("%s %s: iterator not done after %d steps", d.c, what, 8*len(d.c.Names)+64))
		return
	}
	seen := map[string]bool{}
	for _, p := range pairs {
		if seen[p.K] {
			viol("iterate-duplicate-with-missing", fmt.Sprintf("%s %s: %q yielded twice", d.c, what, p.K))
		}
		seen[p.K] = true
		if w, ok := want[p.K]; !ok || w != p.V {
			viol("iterate-unexpected-entry", fmt.Sprintf("%s %s: yielded %q -> %s", d.c, what, p.K, p.V))
		}
	}
	for k := range want {
		if !seen[k] && !d.mayRefuse {
			viol("iterate-lost-entry", fmt.Sprintf("%s %s: entry %q is reachable without the missing shards but was not yielded", d.c, what, k))
		}
	}
	if d.mayRefuse {
		// irregular DAG: the library may add errors of its own or stop early; what
		// it may not do is lose a load error it ran into (every injected error it
		// reports is one of the missing shards, and when nothing of its own
		// stopped it, it reports all of them)
		inj, own := 0, 0
		for _, e := range errs {
			if store.IsInjected(e) {
				inj++
			} else {
				own++
			}
		}
		if inj > wantErrs || (own == 0 && inj != wantErrs) || (strings.HasPrefix(d.c.Hand, "irregular empty-child") && inj != wantErrs) {
			viol("iterate-error-count irregular", fmt.Sprintf("%s %s: %d load errors reported (+%d other), %d missing shards are met by a full walk (%v)", d.c, what, inj, own, wantErrs, errs))
		}
		return
	}
	if len(errs) != wantErrs {
		viol("iterate-error-count", fmt.Sprintf("%s %s: %d errors reported, %d missing shards met (%v)", d.c, what, len(errs), wantErrs, errs))
	}
	for _, e := range errs {
		if !store.IsInjected(e) {
			viol("iterate-wrong-error", fmt.Sprintf("%s %s: %q is not the load error", d.c, what, e))
		}
	}
}

// transient is the body of one execution of the "k-th load fails" space: each
// load is a choice point {ok, not-found, I/O error}.
func (d *c12Dag) transient(x *xplore.Ctx, viol func(sig, detail string)) string {
	var failedAt []int
	d.s.ResetLogs()
	defer func() { d.s.OnRead = nil }()
	ls := lsFor(d.s)
	// the root load is the caller's business: never fail it
	d.s.OnRead = nil
	rn, err := loadRoot(ls, d.root)
	if err != nil {
		viol("load-root", err.Error())
		return "load-root"
	}
	d.s.ResetLogs()
	hook := func(c cid.Cid, nth int) error {
		if k := x.Choose(1+len(store.AllKinds), "load"); k > 0 {
			failedAt = append(failedAt, nth)
			return store.MakeErr(store.AllKinds[k-1], c)
		}
		return nil
	}
	d.s.OnRead = hook
	n, err := openVia("unixfs", ls, rn)
	if err != nil {
		viol("reify-error", err.Error())
		return "reify-error"
	}
	what := "transient"
	if d.tree != nil {
		lb, ok := n.(datamodel.LargeBytesNode)
		if !ok {
			return "not-large"
		}
		rs, _ := lb.AsLargeBytes()
		// the read starts at offset 0 or (free choice, not a deviation) strictly
		// inside a chunk: the reader then fast-forwards inside the first child it
		// opens, and a load that fails there and succeeds on retry must not lose
		// that position
		starts := []int64{0}
		var inner []int64
		for _, nd := range d.tree.Nodes() {
			if len(nd.Children) == 0 && nd.End-nd.Start >= 2 {
				inner = append(inner, nd.Start+1)
			}
		}
		// first, middle and last chunk
		for _, i := range []int{0, len(inner) / 2, len(inner) - 1} {
			if i >= 0 && i < len(inner) && inner[i] != starts[len(starts)-1] {
				starts = append(starts, inner[i])
			}
		}
		start := starts[x.ChooseFree(len(starts), "start-offset")]
		want := d.content
		if start > 0 {
			if _, err := rs.Seek(start, io.SeekStart); err != nil {
				if !store.IsInjected(err) {
					viol("transient-seek-error", fmt.Sprintf("%s: Seek(%d): %v", d.c, start, err))
				}
				return fmt.Sprintf("file seek-error start=%d", start)
			}
			want = d.content[start:]
		}
		// sequential read that retries after errors (bounded): the bytes
		// delivered must always be a prefix of the content; the first error
		// must come exactly where the failed load's span starts.
		var got []byte
		buf := make([]byte, 2)
		errsSeen := 0
		firstErrAt := -1
		for calls := 0; calls < 8*len(want)+64; calls++ {
			nn, err := rs.Read(buf)
			got = append(got, buf[:nn]...)
			if err == io.EOF {
				// a failed load that the reader recovered from by loading the
				// block again is not observable: only the delivered bytes count
				if !bytes.Equal(got, want) {
					viol("transient-eof-truncated", fmt.Sprintf("%s: loads %v failed; EOF after %d of %d bytes", d.c, failedAt, len(got), len(want)))
				}
				// in a file whose nodes record every child's size each block is
				// loaded exactly when a Read needs it: a load that fails makes
				// THAT Read report the error, however the retry goes
				if d.sized && d.c.Kind == "file" && errsSeen < len(failedAt) {
					viol("transient-error-unreported", fmt.Sprintf("%s: loads %v failed during a sequential read from offset %d, the Read calls reported %d error(s) and then EOF with the complete content", d.c, failedAt, start, errsSeen))
				}
				break
			}
			if err != nil {
				errsSeen++
				if firstErrAt < 0 {
					firstErrAt = len(got)
					dfs := d.tree.Nodes()[1:]
					k := failedAt[0]
					if start == 0 && d.sized && d.c.Kind == "file" && k < len(dfs) && int64(firstErrAt) != dfs[k].Start {
						viol("transient-prefix", fmt.Sprintf("%s: load #%d (%s, span starts at %d) failed, %d bytes were returned before the error", d.c, k, short(dfs[k].Cid), dfs[k].Start, firstErrAt))
					}
				}
				if !store.IsInjected(err) {
					viol("transient-wrong-error", fmt.Sprintf("%s: %q", d.c, err))
				}
				if errsSeen > 4 {
					break
				}
				continue
			}
			if len(got) > len(want) || !bytes.Equal(got, want[:len(got)]) {
				viol("transient-wrong-bytes", fmt.Sprintf("%s: loads %v failed; bytes delivered %s are not a prefix of the content from offset %d", d.c, failedAt, clip(got, 16), start))
				break
			}
		}
		return fmt.Sprintf("file start=%d failed=%v got=%d errs=%d", start, failedAt, len(got), errsSeen)
	}
	// shard: full iteration under the fault plan
	plan := map[int]bool{}
	wantEntries, wantErrs := map[string]string{}, 0
	pairs, errs, term := iterateMap(n, 8*len(d.c.Names)+64)
	for _, k := range failedAt {
		plan[k] = true
	}
	wantEntries, wantErrs = iterModel(d.hm, func(c cid.Cid, nth int) bool { return plan[nth] })
	if !term {
		viol("iterate-nonterminating", fmt.Sprintf("%s %s plan %v", d.c, what, failedAt))
	}
	got := map[string]string{}
	for _, p := range pairs {
		if _, dup := got[p.K]; dup {
			viol("iterate-duplicate-with-missing", fmt.Sprintf("%s plan %v: %q twice", d.c, failedAt, p.K))
		}
		got[p.K] = p.V
	}
	if d.mayRefuse {
		// irregular DAG (the library adds errors of its own / stops early): only
		// termination, no duplicates and no panic are required here; the static
		// part checks that load errors are not lost
		return fmt.Sprintf("shard(irregular) failed=%v yielded=%d errs=%d", failedAt, len(pairs), len(errs))
	}
	if fmt.Sprint(sortedKeys(got)) != fmt.Sprint(sortedKeys(wantEntries)) {
		viol("iterate-entries-under-transient-fault", fmt.Sprintf("%s: loads %v failed; yielded %v, reachable %v", d.c, failedAt, sortedKeys(got), sortedKeys(wantEntries)))
	}
	if len(errs) != wantErrs {
		viol("iterate-error-count", fmt.Sprintf("%s: loads %v failed; %d errors reported want %d", d.c, failedAt, len(errs), wantErrs))
	}
	return fmt.Sprintf("shard failed=%v yielded=%d errs=%d", failedAt, len(pairs), len(errs))
}

func runC12(r *core.Run) {
	r.Rule("fault enumeration, all exhaustive: (a) every single block of every DAG withheld, (b) every subset of blocks withheld for DAGs with <= 10 blocks (the full powerset replaces 'random subsets'), three error kinds (not-found, opaque I/O, bare io.ErrUnexpectedEOF); (c) stateless DFS over 'the k-th load fails' choice sequences (4 answers per load: ok / not-found / opaque I/O error / bare io.ErrUnexpectedEOF, <= 2 failures per execution, reads retried after errors). DAGs: file shapes (w in {2,3}, incl. equal chunks = one CID at several positions; both writers), sharded directories of universe subsets at F in {8,16,256} and reference-written ones. Oracles from an independent model: bytes before the error == content preceding the first needed withheld span, error is the injected load error (never EOF/not-found), iteration yields exactly the entries reachable without the withheld shards and one error per withheld shard met")
	var cases []c05Case
	var files []fileCase
	writers := []string{"ours", "balanced/raw=false/v1=false", "trickle/raw=true/v1=true"}
	if r.Quick() {
		files = smallFileFamily([]int{2}, []int{3}, []string{"distinct", "equal"}, writers)
		files = append(files, smallFileFamily([]int{3}, []int{3}, []string{"distinct"}, writers[:1])...)
	} else {
		files = smallFileFamily([]int{2, 3}, []int{3}, []string{"distinct", "equal"}, allWriters())
		files = append(files, smallFileFamily([]int{4}, []int{1}, []string{"distinct", "equal"}, writers[:1])...)
	}
	for _, f := range files {
		cases = append(cases, c05Case{Kind: "file", File: f})
	}
	// legal encodings neither writer emits: dag-pb leaves, absent BlockSizes /
	// FileSize, empty chunks in the middle
	for _, h := range gen.HandFamily() {
		cases = append(cases, c05Case{Kind: "hand", Hand: h.Label})
	}
	// decodable shard DAGs neither writer emits (mixed fanouts, zero bitfields,
	// empty child shards)
	for _, l := range gen.HandShardLabels() {
		cases = append(cases, c05Case{Kind: "handshard", Hand: l})
	}
	usize := 8
	fanouts := []int{8, 16, 256}
	if !r.Quick() {
		usize = 10
	}
	u := gen.Universe(usize)
	for mask := 1; mask < 1<<uint(len(u)); mask++ {
		for _, f := range fanouts {
			if f != 8 && mask%4 != 3 {
				continue
			}
			cases = append(cases, c05Case{Kind: "shard", Fanout: f, Names: gen.SubsetOf(u, mask)})
			if mask%9 == 0 {
				cases = append(cases, c05Case{Kind: "shard", Fanout: f, Names: gen.SubsetOf(u, mask), Ref: true})
			}
		}
	}
	du := gen.DeepUniverse()
	for mask := 1; mask < 1<<uint(len(du)); mask += 37 {
		cases = append(cases, c05Case{Kind: "shard", Fanout: 8, Names: gen.SubsetOf(du, mask)})
	}
	var subsets, execs, truncated int64Counter
	groups := map[int][]c05Case{}
	for _, c := range cases {
		groups[c.File.W] = append(groups[c.File.W], c)
	}
	for _, w := range []int{0, 2, 3, 4} {
		g := groups[w]
		core.ParallelFor(len(g), workers, func(i int) {
			c := g[i]
			d, err := c12Build(c)
			r.Evaluations.Add(1)
			if err != nil {
				r.Violate("build-error", c.String()+": "+err.Error(), c12Replay{Case: c})
				return
			}
			r.States.Add(1)
			if i%211 == 0 {
				r.Sample(map[string]any{"dag": c.String(), "blocks": len(d.blocks)})
			}
			nb := len(d.blocks)
			// (a)+(b): static missing sets
			var masks []int
			if nb <= 10 {
				for m := 0; m < 1<<uint(nb); m++ {
					masks = append(masks, m)
				}
			} else {
				masks = append(masks, 0)
				for k := 0; k < nb; k++ {
					masks = append(masks, 1<<uint(k))
				}
				r.Cap("subset-powerset only for DAGs with <= 10 blocks; larger DAGs get every single block")
			}
			for _, m := range masks {
				miss := map[string]bool{}
				var ml []string
				for k, b := range d.blocks {
					if m>>uint(k)&1 == 1 {
						miss[b.KeyString()] = true
						ml = append(ml, b.String())
					}
				}
				for _, kind := range store.AllKinds {
					if m == 0 && kind != store.NotFound {
						continue
					}
					subsets.add(1)
					r.Distinct(fmt.Sprintf("%s/%d/%d", c, m, kind))
					d.static(miss, kind, func(sig, detail string) {
						r.Violate(sig+" "+c.Kind, detail, c12Replay{Case: c, Missing: ml, Kind: int(kind)})
					}, r)
				}
			}
			// (c): transient faults, deviation bound 2
			ex := &xplore.Explorer{Bound: 2, Horizon: 4000, Replay: 2, OnDiverge: func(ch []int, a, b string) {
				r.InternalError(fmt.Sprintf("nondeterministic replay %s %v: %q vs %q", c, ch, a, b))
			}}
			ex.Explore(func(x *xplore.Ctx) string {
				return d.transient(x, func(sig, detail string) {
					r.Violate(sig+" "+c.Kind, detail, c12Replay{Case: c, Choices: append([]int{}, x.Choices...)})
				})
			}, func(res xplore.Result) {
				if res.Panic != nil {
					r.Violate("panic transient "+c.Kind, fmt.Sprintf("%s choices %v: %v", c, res.Choices, res.Panic), c12Replay{Case: c, Choices: res.Choices})
				}
				r.Distinct(res.Obs)
			})
			execs.add(int64(ex.Stats.Executions))
			truncated.add(int64(ex.Stats.Truncated))
			r.Transitions.Add(int64(ex.Stats.ChoicePoints))
		})
	}
	r.Set("static_missing_sets", subsets.n)
	r.Set("transient_fault_executions", execs.n)
	r.Set("truncated_executions", truncated.n)
	r.Set("deviation_bound_completed", 2)
	r.Evaluations.Add(subsets.n + execs.n)
	r.Traces.Add(subsets.n + execs.n)
}
