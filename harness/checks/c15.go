package checks

import (
	"encoding/json"
	"fmt"

	"github.com/ipfs/go-cid"
	"github.com/ipld/go-ipld-prime/datamodel"

	"verif/harness/core"
	"verif/harness/gen"
	"verif/harness/model"
	"verif/harness/store"
)

func init() {
	Registry["C15"] = runC15
	Replayers["C15"] = func(raw []byte) string {
		var c c15Case
		if err := json.Unmarshal(raw, &c); err != nil {
			return "bad case: " + err.Error()
		}
		var out []string
		c.run(func(sig, detail string) { out = append(out, sig+" :: "+detail) }, nil)
		return joinLines(out)
	}
}

// mapContract checks the map-node contract of the statement on one node.
func mapContract(n datamodel.Node, alphabet []string, viol func(sig, detail string)) {
	length := n.Length()
	it := n.MapIterator()
	if it == nil {
		viol("contract-nil-iterator", "MapIterator() == nil")
		return
	}
	yielded := map[string][]string{}
	var seq []kv
	var keptK, keptV []datamodel.Node
	count := int64(0)
	for !it.Done() {
		if count > length+8 {
			viol("contract-iter-overrun", fmt.Sprintf("iterator still not done after %d pairs, Length()=%d", count, length))
			return
		}
		k, v, err := it.Next()
		count++
		if err != nil {
			viol("contract-iter-error", fmt.Sprintf("Next #%d: %v", count, err))
			continue
		}
		ks, err := k.AsString()
		if err != nil {
			viol("contract-key-kind", err.Error())
			continue
		}
		l, err := v.AsLink()
		if err != nil {
			viol("contract-value-kind", err.Error())
			continue
		}
		yielded[ks] = append(yielded[ks], l.String())
		seq = append(seq, kv{ks, l.String()})
		keptK, keptV = append(keptK, k), append(keptV, v)
	}
	// yielded nodes are values: held until the iteration is over they still
	// say what they said when they were yielded
	for i := range keptV {
		ks, _ := keptK[i].AsString()
		after := "error"
		if l, err := keptV[i].AsLink(); err == nil {
			after = l.String()
		}
		if i < len(seq) && (ks != seq[i].K || after != seq[i].V) {
			viol("contract-yielded-value-changes", fmt.Sprintf("pair #%d was yielded as %s=%s; after the iteration the same nodes say %s=%s", i+1, seq[i].K, seq[i].V, ks, after))
			break
		}
	}
	if count != length {
		viol("contract-length", fmt.Sprintf("iteration yielded %d pairs, Length()=%d", count, length))
	}
	// driven by the count (Next() exactly Length() times, Done() not asked in
	// between) the iterator yields the same pairs and is then done
	if count == length && len(seq) == int(count) {
		byCount, problem := iterateByCount(n, int(count))
		if problem != "" {
			viol("contract-iter-by-count", problem)
		} else if fmt.Sprint(byCount) != fmt.Sprint(seq) {
			viol("contract-iter-by-count", fmt.Sprintf("Next() x %d yields %v, the Done()-guarded loop %v", count, clipKVs(byCount), clipKVs(seq)))
		}
	}
	// one more Next after Done must be an over-read error, not a panic
	if p, pv := core.Guard(func() {
		_, _, err := it.Next()
		if err == nil {
			viol("contract-overread-noerror", "Next() after Done returned nil error")
		}
	}); p {
		viol("panic contract-overread", fmt.Sprint(pv))
	}
	if nd, ok := n.(nativeDir); ok {
		np, term := iterateNative(nd, int(length)+8)
		if !term {
			viol("contract-native-overrun", "native Iterator not done")
		}
		if fmt.Sprint(np) != fmt.Sprint(seq) {
			viol("contract-iterators-disagree", fmt.Sprintf("MapIterator %v, native Iterator %v", seq, np))
		}
	}
	contains := func(xs []string, x string) bool {
		for _, y := range xs {
			if y == x {
				return true
			}
		}
		return false
	}
	keys := append([]string{}, alphabet...)
	// the field names of the wrapped dag-pb node are not entries: a view that
	// falls through to its substrate on a miss would find them
	for _, k := range []string{"Links", "Data", "Hash", "Name", "Tsize"} {
		if !contains(keys, k) {
			keys = append(keys, k)
		}
	}
	for k := range yielded {
		if !contains(keys, k) {
			keys = append(keys, k)
		}
	}
	for _, k := range keys {
		res, err := lookupAll(n, k)
		for i := 1; i < 4; i++ {
			if res[i] != res[0] {
				viol(fmt.Sprintf("contract-lookups-disagree entry%d", i), fmt.Sprintf("key %q: LookupByString=%q, entry point %d=%q", k, res[0], i, res[i]))
			}
		}
		if ys, ok := yielded[k]; ok {
			if res[0] == "" {
				viol("contract-yielded-not-found", fmt.Sprintf("key %q was yielded but lookup fails (%v)", k, err))
			} else if !contains(ys, res[0]) {
				viol("contract-lookup-foreign-link", fmt.Sprintf("key %q resolves to %s which was not yielded under it (%v)", k, res[0], ys))
			}
		} else if res[0] != "" {
			viol("contract-found-not-yielded", fmt.Sprintf("key %q never yielded but lookup finds %s", k, res[0]))
		}
	}
}

type c15Case struct {
	View  string   `json:"view"`  // dir | nodata | symlink | metadata | garbage
	Names []string `json:"names"` // "\x00" = absent name
	Via   string   `json:"via"`   // built | decoded
}

func (c c15Case) String() string {
	return fmt.Sprintf("%s/%s %q", c.View, c.Via, c.Names)
}

var c15Targets []cid.Cid

func init() {
	for i := 0; i < 8; i++ {
		c, _ := gen.V1Raw.Sum([]byte{byte(i), 'c', '1', '5'})
		c15Targets = append(c15Targets, c)
	}
}

func (c c15Case) run(viol func(sig, detail string), r *core.Run) {
	pn := &model.PBNode{}
	for i, n := range c.Names {
		l := model.PBLink{Cid: c15Targets[i], Tsize: uint64(i), HasTsize: true}
		if n != "\x00" {
			l.Name, l.HasName = n, true
		}
		pn.Links = append(pn.Links, l)
	}
	switch c.View {
	case "dir":
		pn.Data, pn.HasData = []byte{0x08, 0x01}, true
	case "symlink":
		pn.Data, pn.HasData = []byte{0x08, 0x04, 0x12, 0x01, 'x'}, true
	case "metadata":
		pn.Data, pn.HasData = []byte{0x08, 0x03}, true
	case "garbage":
		pn.Data, pn.HasData = []byte{0xff, 0xff}, true
	}
	node, err := buildPBNode(pn)
	if err != nil {
		viol("harness-build", err.Error())
		return
	}
	if c.Via == "decoded" {
		enc, err := encodePBNode(node)
		if err != nil {
			viol("harness-encode", err.Error())
			return
		}
		node, err = decodePBNode(enc)
		if err != nil {
			viol("harness-decode", err.Error())
			return
		}
	}
	s := store.New()
	ls := lsFor(s)
	for _, how := range []string{"Reify", "unixfs-preload"} {
		var n datamodel.Node
		var err error
		if p, pv := core.Guard(func() { n, err = openVia(how, ls, node) }); p {
			viol("panic reify "+c.View, fmt.Sprintf("%s via %s: %v", c, how, pv))
			return
		}
		if err != nil {
			viol("reify-error "+c.View, fmt.Sprintf("%s: %v", c, err))
			return
		}
		if r != nil {
			r.Transitions.Add(1)
		}
		if p, pv := core.Guard(func() {
			mapContract(n, []string{"", "a", "b", "c", "0", "1", "2", "3", "-1", "01"}, func(sig, detail string) {
				viol(sig+" "+c.View, fmt.Sprintf("%s via %s (%T): %s", c, how, n, detail))
			})
		}); p {
			viol("panic contract "+c.View, fmt.Sprintf("%s: %v", c, pv))
		}
	}
	if r != nil {
		r.States.Add(1)
	}
}

func runC15(r *core.Run) {
	r.Rule("bounded-exhaustive: every link list of length <= 4 (quick) / 5 (thorough) over names {absent,\"\",a,b} (every order, duplicates included) viewed as plain directory, data-less node, symlink, metadata and undecodable-data node, both built directly and decoded from the encoded block; every sharded directory of the universe subsets (this builder and the reference writer); oracle = the map-node contract (iteration count == Length, over-read error, yielded keys resolvable to a yielded link, unyielded keys absent, 4 lookup entry points and both iterators agree)")
	// "1": a name that reads as a number (and as a position in the link list)
	alphabet := []string{"\x00", "", "a", "1"}
	maxLen := 4
	if !r.Quick() {
		maxLen = 5
	}
	var lists [][]string
	var rec func(cur []string)
	rec = func(cur []string) {
		lists = append(lists, append([]string{}, cur...))
		if len(cur) == maxLen {
			return
		}
		for _, a := range alphabet {
			rec(append(cur, a))
		}
	}
	rec(nil)
	var cases []c15Case
	for _, l := range lists {
		for _, v := range []string{"dir", "nodata", "symlink", "metadata", "garbage"} {
			for _, via := range []string{"built", "decoded"} {
				cases = append(cases, c15Case{View: v, Names: l, Via: via})
			}
		}
	}
	core.ParallelFor(len(cases), workers, func(i int) {
		c := cases[i]
		r.Evaluations.Add(1)
		r.Distinct(c.String())
		if i%701 == 0 {
			r.Sample(c.String())
		}
		c.run(func(sig, detail string) { r.Violate(sig, detail, c) }, r)
	})
	r.Set("link_lists", len(lists))

	// sharded directories: both writers
	usize := 9
	if !r.Quick() {
		usize = 12
	}
	u := gen.Universe(usize)
	type sc struct {
		mask, fanout int
		ref          bool
		mixed        []int // per-level fanouts of a harness-written HAMT
	}
	var scs []sc
	for mask := 1; mask < 1<<uint(len(u)); mask++ {
		for _, f := range []int{8, 16, 256, 1024} {
			scs = append(scs, sc{mask, f, false, nil})
			if mask%3 == 0 {
				scs = append(scs, sc{mask, f, true, nil})
			}
		}
		// well-formed HAMTs whose levels differ in fanout (same prefix width)
		if mask%2 == 1 {
			for _, mf := range [][]int{{8, 16}, {32, 256}, {256, 64}, {512, 1024, 512}} {
				scs = append(scs, sc{mask, mf[0], false, mf})
			}
		}
	}
	// names with engineered hashes (pairs agreeing in 50..63 bits: shards 7..21
	// levels below the root at the narrow fanouts)
	xu := gen.ExtremeUniverse()
	for mask := 1; mask < 1<<uint(len(xu)); mask++ {
		for _, f := range []int{8, 16, 256} {
			scs = append(scs, sc{-mask, f, mask%4 == 0, nil})
		}
	}
	core.ParallelFor(len(scs), workers, func(i int) {
		c := scs[i]
		names := gen.SubsetOf(u, c.mask)
		probes := u
		if c.mask < 0 {
			names, probes = gen.SubsetOf(xu, -c.mask), xu
		}
		s := store.New()
		es := gen.Leaves(s, names)
		var root cid.Cid
		var err error
		if c.mixed != nil {
			root, _, err = gen.MixedHamt(s, es, c.mixed)
		} else if c.ref {
			root, _, err = gen.RefShard(s, c.fanout, es)
		} else {
			root, _, err = gen.OursSharded(s, c.fanout, es)
		}
		r.Evaluations.Add(1)
		desc := fmt.Sprintf("shard F=%d ref=%v %q", c.fanout, c.ref, trimNames(names))
		if c.mixed != nil {
			desc = fmt.Sprintf("shard level-fanouts=%v %q", c.mixed, trimNames(names))
		}
		r.Distinct(desc)
		if err != nil {
			w := 0
			for 1<<uint(w) < c.fanout {
				w++
			}
			if c.mask < 0 && model.TooDeep(names, w) {
				return // two names agree in every addressable hash bit: no HAMT of this fanout holds both
			}
			r.Violate("build-error shard", desc+": "+err.Error(), nil)
			return
		}
		ls := lsFor(s)
		rn, err := loadRoot(ls, root)
		if err != nil {
			r.InternalError(err.Error())
			return
		}
		n, err := openVia("Reify", ls, rn)
		if err != nil {
			r.Violate("reify-error shard", desc+": "+err.Error(), nil)
			return
		}
		r.States.Add(1)
		r.Transitions.Add(1)
		if p, pv := core.Guard(func() {
			mapContract(n, append(append([]string{}, probes...), "nope", ""), func(sig, detail string) {
				r.Violate(sig+" shard", desc+": "+detail, dirCase{Builder: "sharded", Fanout: c.fanout, Names: names})
			})
		}); p {
			r.Violate("panic contract shard", fmt.Sprintf("%s: %v", desc, pv), nil)
		}
		// a transient fault does not change what the node is: with one shard
		// block unavailable Length / iteration / the preload fail or come up
		// short; once the block is back the same node obeys the contract
		// again (nothing learned from the failed walk may be remembered)
		if i%3 != 0 {
			return
		}
		for _, blk := range s.Cids() {
			if blk.Equals(root) || blk.Prefix().Codec != cid.DagProtobuf {
				continue
			}
			for _, first := range []string{"Length", "iterate", "lookups"} {
				n, err := openVia("Reify", ls, rn)
				if err != nil {
					break
				}
				s.Missing[string(blk.Hash())] = store.NotFound
				core.Guard(func() {
					switch first {
					case "Length":
						n.Length()
					case "iterate":
						iterateMap(n, 4*len(names)+16)
					case "lookups":
						for _, k := range names {
							n.LookupByString(k)
						}
					}
				})
				delete(s.Missing, string(blk.Hash()))
				r.Transitions.Add(1)
				if p, pv := core.Guard(func() {
					mapContract(n, append(append([]string{}, probes...), "nope", ""), func(sig, detail string) {
						r.Violate(sig+" shard after-transient-fault", fmt.Sprintf("%s: after a %s attempt while shard block %s was unavailable (now available again): %s", desc, first, short(blk), detail), nil)
					})
				}); p {
					r.Violate("panic contract shard after-transient-fault", fmt.Sprintf("%s: %v", desc, pv), nil)
				}
			}
		}
	})
}
