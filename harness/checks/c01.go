package checks

import (
	"bytes"
	"encoding/json"
	"fmt"
	"io"
	"os"
	"sort"
	"strings"

	"github.com/ipld/go-ipld-prime"
	"github.com/ipld/go-ipld-prime/datamodel"
	cidlink "github.com/ipld/go-ipld-prime/linking/cid"

	"github.com/ipfs/go-cid"
	"github.com/ipfs/go-unixfsnode/data/builder"
	"verif/harness/core"
	"verif/harness/gen"
	"verif/harness/model"
	"verif/harness/store"
	"verif/harness/xplore"
)

func init() {
	Registry["C01"] = runC01
	Replayers["C01"] = func(raw []byte) string {
		var c fileCase
		if err := json.Unmarshal(raw, &c); err != nil {
			return "bad case: " + err.Error()
		}
		var out []string
		c01Case(c, func(sig, detail string) { out = append(out, sig+" :: "+detail) }, nil)
		return joinLines(out)
	}
}

func joinLines(s []string) string {
	out := ""
	for _, l := range s {
		out += l + "\n"
	}
	return out
}

// bufSizesFor lists the streamed-read buffer sizes: every size 1..L+1 for
// small files, boundary sizes otherwise.
func bufSizesFor(L, w, k int) []int {
	if L <= 14 {
		var out []int
		for b := 1; b <= L+1; b++ {
			out = append(out, b)
		}
		return out
	}
	set := map[int]bool{}
	for _, b := range []int{1, 2, 3, w, k, k + 1, L - 1, L, L + 1} {
		if b >= 1 {
			set[b] = true
		}
	}
	var out []int
	for b := range set {
		out = append(out, b)
	}
	sort.Ints(out)
	return out
}

// c01Case checks one DAG through every opener. stats may be nil.
func c01Case(c fileCase, viol func(sig, detail string), r *core.Run) {
	content := c.content()
	s, root, _, err := c.build()
	if err != nil {
		viol("build-error "+c.Writer, fmt.Sprintf("%s: %v", c, err))
		return
	}
	if r != nil {
		r.States.Add(1)
	}
	// declared file size of a dag-pb root
	if blk, err := model.Load(s, root); err == nil && blk.FS != nil && blk.PB != nil {
		if blk.FS.Filesize == nil || int(blk.FS.GetFilesize()) != len(content) {
			viol("declared-filesize "+c.Writer, fmt.Sprintf("%s: root FileSize=%d (present=%v) want %d", c, blk.FS.GetFilesize(), blk.FS.Filesize != nil, len(content)))
		}
	}
	ls := lsFor(s)
	for _, how := range openers {
		rootNode, err := loadRoot(ls, root)
		if err != nil {
			viol("load-root", fmt.Sprintf("%s: %v", c, err))
			return
		}
		var n datamodel.Node
		panicked, pv := core.Guard(func() { n, err = openVia(how, ls, rootNode) })
		if panicked {
			viol("panic open "+how, fmt.Sprintf("%s: %v", c, pv))
			continue
		}
		if err != nil {
			viol("open-error "+how, fmt.Sprintf("%s: %v", c, err))
			continue
		}
		if r != nil {
			r.Transitions.Add(1)
		}
		panicked, pv = core.Guard(func() {
			got, err := n.AsBytes()
			if err != nil || !bytes.Equal(got, content) {
				viol("asbytes "+how+" "+c.Writer, fmt.Sprintf("%s: err=%v got %s want %s", c, err, clip(got, 24), clip(content, 24)))
			}
			lb, ok := n.(datamodel.LargeBytesNode)
			if !ok {
				return
			}
			rs, err := lb.AsLargeBytes()
			if err != nil {
				viol("aslargebytes "+how, fmt.Sprintf("%s: %v", c, err))
				return
			}
			end, err := rs.Seek(0, io.SeekEnd)
			if err != nil || end != int64(len(content)) {
				viol("seek-end "+how+" "+c.Writer, fmt.Sprintf("%s: Seek(0,End)=(%d,%v) want %d", c, end, err, len(content)))
			}
			for _, b := range bufSizesFor(len(content), c.W, c.K) {
				rs, err := lb.AsLargeBytes()
				if err != nil {
					viol("aslargebytes "+how, fmt.Sprintf("%s: %v", c, err))
					return
				}
				got, err := readAllBuf(rs, b, 4*len(content)+16)
				if r != nil {
					r.Transitions.Add(1)
				}
				if err != nil || !bytes.Equal(got, content) {
					viol("stream "+how+" "+c.Writer, fmt.Sprintf("%s buf=%d: err=%v got %s want %s", c, b, err, clip(got, 24), clip(content, 24)))
					return
				}
				// the same reader, used: it still reports the length, and
				// rewound it streams the whole content again (what
				// http.ServeContent does: sniff, seek to the end, seek to the
				// start, copy)
				if end, err := rs.Seek(0, io.SeekEnd); err != nil || end != int64(len(content)) {
					viol("seek-end-used-reader "+how+" "+c.Writer, fmt.Sprintf("%s buf=%d: after a full read Seek(0,End)=(%d,%v) want %d", c, b, end, err, len(content)))
				}
				if pos, err := rs.Seek(0, io.SeekStart); err != nil || pos != 0 {
					viol("rewind "+how+" "+c.Writer, fmt.Sprintf("%s buf=%d: Seek(0,Start)=(%d,%v)", c, b, pos, err))
				}
				got, err = readAllBuf(rs, b, 4*len(content)+16)
				if err != nil || !bytes.Equal(got, content) {
					viol("stream-after-rewind "+how+" "+c.Writer, fmt.Sprintf("%s buf=%d: second pass err=%v got %s want %s", c, b, err, clip(got, 24), clip(content, 24)))
					return
				}
				// buffers of changing sizes, empty ones among them (an
				// empty-buffer Read is legal and moves nothing)
				if rs3, err := lb.AsLargeBytes(); err == nil {
					got, err = readAllMixed(rs3, []int{b, 0, 1, 0, 0, b + 2}, 8*len(content)+64)
					if err != nil || !bytes.Equal(got, content) {
						viol("stream-mixed-buffers "+how+" "+c.Writer, fmt.Sprintf("%s buffer sizes [%d 0 1 0 0 %d]…: err=%v got %d bytes %s want %d", c, b, b+2, err, len(got), clip(got, 24), len(content)))
						return
					}
				}
				// a consumer that reads a header and hands the rest to io.Copy
				// (which uses the reader's WriteTo if it has one): the rest is the
				// rest; the same after a Seek; a drained reader copies nothing
				if rs5, err := lb.AsLargeBytes(); err == nil {
					k := b
					if k > len(content) {
						k = len(content)
					}
					hdr := make([]byte, k)
					io.ReadFull(rs5, hdr)
					var rest bytes.Buffer
					_, cerr := io.Copy(&rest, rs5)
					if cerr != nil || !bytes.Equal(hdr, content[:k]) || !bytes.Equal(rest.Bytes(), content[k:]) {
						viol("copy-after-header "+how+" "+c.Writer, fmt.Sprintf("%s: %d-byte header then io.Copy: err=%v, copied %d bytes, want the remaining %d", c, k, cerr, rest.Len(), len(content)-k))
						return
					}
					var again bytes.Buffer
					if n2, _ := io.Copy(&again, rs5); n2 != 0 {
						viol("copy-after-eof "+how+" "+c.Writer, fmt.Sprintf("%s: io.Copy from a drained reader delivered %d more bytes", c, n2))
						return
					}
					if pos, err := rs5.Seek(int64(k/2), io.SeekStart); err == nil && pos == int64(k/2) {
						var tail bytes.Buffer
						io.Copy(&tail, rs5)
						if !bytes.Equal(tail.Bytes(), content[k/2:]) {
							viol("copy-after-seek "+how+" "+c.Writer, fmt.Sprintf("%s: Seek(%d) then io.Copy: copied %d bytes, want %d", c, k/2, tail.Len(), len(content)-k/2))
							return
						}
					}
				}
				// sniff a prefix, ask for the length, rewind, stream
				rs2, err := lb.AsLargeBytes()
				if err != nil {
					return
				}
				sniff := make([]byte, b)
				io.ReadFull(rs2, sniff)
				if end, err := rs2.Seek(0, io.SeekEnd); err != nil || end != int64(len(content)) {
					viol("seek-end-used-reader "+how+" "+c.Writer, fmt.Sprintf("%s buf=%d: after a %d-byte read Seek(0,End)=(%d,%v) want %d", c, b, b, end, err, len(content)))
				}
				rs2.Seek(0, io.SeekStart)
				got, err = readAllBuf(rs2, b, 4*len(content)+16)
				if err != nil || !bytes.Equal(got, content) {
					viol("stream-after-sniff-and-rewind "+how+" "+c.Writer, fmt.Sprintf("%s buf=%d: err=%v got %s want %s", c, b, err, clip(got, 24), clip(content, 24)))
					return
				}
			}
		})
		if panicked {
			viol("panic read "+how, fmt.Sprintf("%s: %v", c, pv))
		}
	}
}

// c01Concurrent: two file builds interleaved at every storage operation (one
// shared LinkSystem, preemption bound 2); each file must then read back to its
// own bytes and declare its own length.
func c01Concurrent(r *core.Run) {
	var execs int64
	for _, pr := range c11Pairs() {
		pr := pr
		if pr[0].content == nil || pr[1].content == nil {
			continue
		}
		desc := c11PairName(pr)
		ex := &xplore.Explorer{Bound: 2, Horizon: 4000, Replay: 2, MaxExecs: 200000, OnDiverge: func(ch []int, a, b string) {
			r.InternalError(fmt.Sprintf("C01 concurrent: nondeterministic replay %s %v: %q vs %q", desc, ch, a, b))
		}}
		gen.WithWidth(2, func() {
			solo := c11Solo(pr)
			ex.Explore(func(x *xplore.Ctx) string {
				rp := func() any {
					return map[string]any{"kind": "concurrent", "pair": desc, "choices": append([]int{}, x.Choices...)}
				}
				return c11ConcurrentBody(pr, solo, x, func(sig, detail string) {
					if strings.HasPrefix(sig, "returned-size") {
						return // sizes are C11's business
					}
					r.Violate(sig, detail, rp())
				}, func(s *store.Store, roots [2]ipld.Link, choices []int) {
					ls := lsFor(s)
					for i, l := range roots {
						if l == nil {
							continue
						}
						root := l.(cidlink.Link).Cid
						rn, err := loadRoot(ls, root)
						if err != nil {
							r.Violate("load-root concurrent", fmt.Sprintf("%s: build %d: %v (choices %v)", desc, i, err, choices), rp())
							continue
						}
						n, err := openVia("Reify", ls, rn)
						if err != nil {
							r.Violate("reify concurrent", fmt.Sprintf("%s: build %d: %v (choices %v)", desc, i, err, choices), rp())
							continue
						}
						got, err := n.AsBytes()
						if err != nil || !bytes.Equal(got, pr[i].content) {
							r.Violate("asbytes concurrent", fmt.Sprintf("%s: file %d reads back %s (err %v), want %s (schedule choices %v)", desc, i, clip(got, 16), err, clip(pr[i].content, 16), choices), rp())
						}
						if lb, ok := n.(datamodel.LargeBytesNode); ok {
							if rs, err := lb.AsLargeBytes(); err == nil {
								if e, err := rs.Seek(0, io.SeekEnd); err != nil || e != int64(len(pr[i].content)) {
									r.Violate("seek-end concurrent", fmt.Sprintf("%s: file %d: Seek(0,End) = %d, %v; the file has %d bytes (schedule choices %v)", desc, i, e, err, len(pr[i].content), choices), rp())
								}
							}
						}
						if blk, err := model.Load(s, root); err == nil && blk.FS != nil && blk.PB != nil && len(blk.PB.Links) > 0 {
							if blk.FS.Filesize == nil || int(blk.FS.GetFilesize()) != len(pr[i].content) {
								r.Violate("declared-filesize concurrent", fmt.Sprintf("%s: file %d: root FileSize=%d, the file has %d bytes (schedule choices %v)", desc, i, blk.FS.GetFilesize(), len(pr[i].content), choices), rp())
							}
						}
					}
				})
			}, func(res xplore.Result) {
				if res.Panic != nil {
					r.Violate("panic scheduler", fmt.Sprint(res.Panic), nil)
				}
			})
		})
		execs += int64(ex.Stats.Executions)
		r.Transitions.Add(int64(ex.Stats.ChoicePoints))
		r.States.Add(1)
		r.Distinct("concurrent " + desc)
	}
	r.Evaluations.Add(execs)
	r.Set("concurrent_build_schedules", execs)
	r.Set("concurrent_build_preemption_bound", 2)
	r.Set("instrumentation", os.Getenv("VERIF_INSTR"))
	noteDegraded(r)
}

// c01Framing: the round trip through a link system whose raw codec frames its
// blocks (lsFraming): what a file declares and reports as its length is the
// length of its content, not of what was stored for it.
func c01Framing(r *core.Run) {
	for _, fc := range []fileCase{
		{Writer: "ours", W: 2, Chunker: "size-3", L: 7, K: 3, Pattern: "distinct"},
		{Writer: "ours", W: 2, Chunker: "size-3", L: 16, K: 3, Pattern: "distinct"},
		{Writer: "ours", W: 3, Chunker: "size-2", L: 23, K: 2, Pattern: "distinct"},
		{Writer: "ours", W: 174, Chunker: "size-1", L: 40, K: 1, Pattern: "distinct"},
		{Writer: "ours", W: 2, Chunker: "size-3", L: 3, K: 3, Pattern: "distinct"},
		{Writer: "ours", W: 2, Chunker: "size-3", L: 0, K: 3, Pattern: "distinct"},
	} {
		s := store.New()
		ls := lsFraming(s)
		content := fc.content()
		var root cid.Cid
		var err error
		gen.WithWidth(fc.W, func() {
			var l ipld.Link
			l, _, err = builder.BuildUnixFSFile(bytes.NewReader(content), fc.Chunker, ls)
			if err == nil && l != nil {
				root = l.(cidlink.Link).Cid
			}
		})
		r.Evaluations.Add(1)
		desc := fmt.Sprintf("file %s through a link system whose raw codec frames every block", fc)
		if err != nil || !root.Defined() {
			r.Violate("build-error framing", fmt.Sprintf("%s: %v", desc, err), nil)
			continue
		}
		if blk, err := model.Load(s, root); err == nil && blk.FS != nil && blk.PB != nil {
			if blk.FS.Filesize == nil || int(blk.FS.GetFilesize()) != len(content) {
				r.Violate("declared-filesize framing", fmt.Sprintf("%s: root FileSize=%d, the content has %d bytes", desc, blk.FS.GetFilesize(), len(content)), nil)
			}
			sum := uint64(0)
			for _, b := range blk.FS.Blocksizes {
				sum += b
			}
			if len(blk.PB.Links) > 0 && sum != uint64(len(content)) {
				r.Violate("declared-blocksizes framing", fmt.Sprintf("%s: root BlockSizes %v sum to %d, the content has %d bytes", desc, blk.FS.Blocksizes, sum, len(content)), nil)
			}
		}
		for _, how := range []string{"unixfs", "unixfs-preload"} {
			rn, err := loadRoot(ls, root)
			if err != nil {
				r.Violate("load-root framing", desc+": "+err.Error(), nil)
				break
			}
			n, err := openVia(how, ls, rn)
			if err != nil {
				r.Violate("open-error framing "+how, desc+": "+err.Error(), nil)
				continue
			}
			r.Transitions.Add(1)
			if got, err := n.AsBytes(); err != nil || !bytes.Equal(got, content) {
				r.Violate("asbytes framing "+how, fmt.Sprintf("%s: err=%v got %s want %s", desc, err, clip(got, 24), clip(content, 24)), nil)
			}
			if lb, ok := n.(datamodel.LargeBytesNode); ok {
				if rs, err := lb.AsLargeBytes(); err == nil {
					if end, err := rs.Seek(0, io.SeekEnd); err != nil || end != int64(len(content)) {
						r.Violate("seek-end framing "+how, fmt.Sprintf("%s: Seek(0,End)=(%d,%v), the content has %d bytes", desc, end, err, len(content)), nil)
					}
				}
			}
		}
	}
}

func runC01(r *core.Run) {
	c01Framing(r)
	c01Concurrent(r)
	r.Rule("bounded-exhaustive: every chunk count 0..w^3+w+1 per width (all balanced shapes incl. w^k boundaries), last chunk full/short/1-byte, patterns distinct+equal, chunkers size-K; writers = this builder + reference importer {balanced,trickle}x{raw,pb leaves}x{v0,v1}; each DAG opened through NewUnixFSFile/Reify/unixfs/unixfs-preload and read whole + streamed with every buffer size; a case is distinct by (writer,width,chunker,length,pattern)")
	r.Assume("byte values limited to two content patterns; bufio-free readers only")
	var cases []fileCase
	if r.Quick() {
		cases = smallFileFamily([]int{2, 3, 4}, []int{1, 3}, []string{"distinct", "equal"}, []string{"ours"})
		cases = append(cases, smallFileFamily([]int{2, 3}, []int{3}, []string{"distinct"}, allWriters()[1:])...)
	} else {
		cases = smallFileFamily([]int{2, 3, 4, 5}, []int{1, 3, 4}, []string{"distinct", "equal"}, []string{"ours"})
		cases = append(cases, smallFileFamily([]int{8}, []int{1}, []string{"distinct"}, []string{"ours"})...)
		cases = append(cases, smallFileFamily([]int{2, 3, 4}, []int{3, 4}, []string{"distinct", "equal"}, allWriters()[1:])...)
		// default width at its boundaries, one-byte chunks
		for _, n := range []int{1, 173, 174, 175, 348, 349, 174*174 - 1, 174 * 174, 174*174 + 1} {
			cases = append(cases, fileCase{Writer: "ours", W: 174, Chunker: "size-1", L: n, K: 1, Pattern: "distinct"})
		}
		for _, n := range []int{174, 175, 174*174 + 1} {
			for _, wr := range allWriters()[1:] {
				cases = append(cases, fileCase{Writer: wr, W: 174, Chunker: "size-1", L: n, K: 1, Pattern: "distinct"})
			}
		}
	}
	// many different leaves: anything that depends on the bytes of a link (its
	// CID version, codec, digest) meets thousands of different digests, in CIDv0
	// (bare multihash) and CIDv1 form
	nLeaves := 3000
	if !r.Quick() {
		nLeaves = 20000
	}
	for _, wr := range []string{"balanced/raw=false/v1=false", "balanced/raw=true/v1=true", "trickle/raw=false/v1=false", "ours"} {
		cases = append(cases, fileCase{Writer: wr, W: 174, Chunker: "size-3", L: 3 * nLeaves, K: 3, Pattern: "counter"})
	}
	// the largest chunk the chunker package accepts (1 MiB)
	for _, ch := range []string{"size-1048575", "size-1048576"} {
		for _, L := range []int{1048576, 1048577} {
			cases = append(cases, fileCase{Writer: "ours", W: 2, Chunker: ch, L: L, K: 4099, Pattern: "distinct"})
		}
	}
	// content-defined and default chunkers
	cdc := []fileCase{}
	rabinMax := 120
	if !r.Quick() {
		rabinMax = 400
	}
	for L := 0; L <= rabinMax; L++ {
		cdc = append(cdc, fileCase{Writer: "ours", W: 2, Chunker: "rabin-16-24-40", L: L, K: 5, Pattern: "distinct"})
	}
	for _, ch := range []string{"", "default", "rabin", "buzhash", "size-262144"} {
		for _, L := range []int{0, 1, 256*1024 - 1, 256 * 1024, 256*1024 + 1, 1 << 20} {
			if r.Quick() && L > 256*1024+1 {
				continue
			}
			w := 174
			if L > 256*1024 {
				w = 2
			}
			cdc = append(cdc, fileCase{Writer: "ours", W: w, Chunker: ch, L: L, K: 4099, Pattern: "distinct"})
		}
	}
	cases = append(cases, cdc...)
	// how the bytes are handed to the builder is not part of the content: every
	// seventh small case again from each kind of source (positioned / section
	// reader, buffer, opaque, data together with io.EOF, one byte per Read,
	// (0, nil) first, positioned *os.File)
	base := len(cases)
	for i := 0; i < base; i++ {
		c := cases[i]
		if c.Writer != "ours" || c.L > 300*1024 || i%7 != 0 {
			continue
		}
		for j, src := range fileSources {
			if src == "file" && (i+j)%5 != 0 {
				continue
			}
			c2 := c
			c2.Source = src
			cases = append(cases, c2)
		}
	}

	groups := groupByWidth(cases)
	var widths []int
	for w := range groups {
		widths = append(widths, w)
	}
	sort.Ints(widths)
	for _, w := range widths {
		g := groups[w]
		core.ParallelFor(len(g), workers, func(i int) {
			c := g[i]
			r.Evaluations.Add(1)
			r.Distinct(c.String())
			if i%97 == 0 {
				r.Sample(c)
			}
			c01Case(c, func(sig, detail string) { r.Violate(sig, detail, c) }, r)
		})
	}
	r.Set("widths", widths)
	r.Set("openers", openers)
}
