package c19test

import (
	"bytes"
	"context"
	"encoding/binary"
	"encoding/json"
	"fmt"
	"io"
	"os"
	"runtime"
	"sort"
	"strings"
	"sync"
	"testing"

	"github.com/ipfs/go-cid"
	unixfsnode "github.com/ipfs/go-unixfsnode"
	"github.com/ipfs/go-unixfsnode/testutil"
	"github.com/ipfs/go-unixfsnode/testutil/namegen"
	dagpb "github.com/ipld/go-codec-dagpb"
	"github.com/ipld/go-ipld-prime"
	"github.com/ipld/go-ipld-prime/datamodel"
	cidlink "github.com/ipld/go-ipld-prime/linking/cid"
	basicnode "github.com/ipld/go-ipld-prime/node/basic"

	"verif/harness/core"
	"verif/harness/store"
	"verif/harness/xplore"
)

// ---------------------------------------------------------------------------
// scripted random source

const readHorizon = 600

var wordPeriod int
var dupWordIdx = -1
var wordsOnce sync.Once

type idxReader struct{ n uint32 }

func (r *idxReader) Read(p []byte) (int, error) {
	var b [4]byte
	binary.BigEndian.PutUint32(b[:], r.n)
	return copy(p, b[:]), nil
}

// learnWords discovers the length of namegen's word list and a word that
// occurs twice, through the public API only.
func learnWords() {
	wordsOnce.Do(func() {
		var names []string
		for i := 0; i < 4000; i++ {
			n, _ := namegen.RandomDirectoryName(&idxReader{uint32(i)})
			names = append(names, n)
		}
		for p := 2; p < 2000; p++ {
			ok := true
			for i := 0; i < 1500; i++ {
				if names[i] != names[i+p] {
					ok = false
					break
				}
			}
			if ok {
				wordPeriod = p
				break
			}
		}
		if wordPeriod == 0 {
			panic("c19: could not learn the length of namegen's word list")
		}
		seen := map[string]int{}
		for i := 0; i < wordPeriod; i++ {
			if j, ok := seen[names[i]]; ok {
				dupWordIdx = i
				_ = j
				break
			}
			seen[names[i]] = i
		}
	})
}

type scriptedRand struct {
	x        *xplore.Ctx
	reads    int
	nextWord int
	lastWord int
	log      []string

	lastClass string
	sizeRetry int

	// forceWord / forceExt: when >= 0, the first word-index / extension read is
	// answered with this index without being a choice point (the sweep over
	// every drawable name)
	forceWord int
	forceExt  int
	wordReads int
	extReads  int

	// allowDry: content reads have a third answer, "the source runs dry here"
	// (half of the request, then io.EOF for ever): only for generators that
	// return errors instead of failing the test
	allowDry bool
	dry      bool

	// dupRun: word draws 2 .. dupRun+1 repeat the first word (a run of
	// consecutive duplicate draws: the generators must keep drawing until a
	// fresh name comes), without being choice points
	dupRun int
}

// shiftRight shifts the big-endian number in p right by n bits.
func shiftRight(p []byte, n int) {
	for ; n > 0; n-- {
		carry := byte(0)
		for i := range p {
			next := p[i] & 1
			p[i] = p[i]>>1 | carry<<7
			carry = next
		}
	}
}

func classify() string {
	pc := make([]uintptr, 24)
	n := runtime.Callers(3, pc)
	frames := runtime.CallersFrames(pc[:n])
	class := "generic"
	for {
		f, more := frames.Next()
		fn := f.Function
		switch {
		case strings.HasSuffix(fn, "testutil.rndInt"):
			return "coin"
		case strings.HasSuffix(fn, "namegen.RandomFileExtension"):
			return "ext"
		case strings.HasSuffix(fn, "namegen.getRandomIndex"):
			if class == "generic" {
				class = "index"
			}
		case strings.HasSuffix(fn, "io.(*LimitedReader).Read"):
			if class == "generic" {
				class = "content"
			}
		case strings.HasSuffix(fn, "testutil.UnixFSFile"):
			// any other read made by the file generator is a read of content
			if class == "generic" {
				class = "content"
			}
		case strings.HasSuffix(fn, "crypto/rand.Int"):
			if class == "generic" {
				class = "size"
			}
		}
		if !more {
			break
		}
	}
	return class
}

func fill(p []byte, v byte) {
	for i := range p {
		p[i] = v
	}
}

func putBE(p []byte, v uint64) {
	fill(p, 0)
	for i := len(p) - 1; i >= 0 && v > 0; i-- {
		p[i] = byte(v)
		v >>= 8
	}
}

func (s *scriptedRand) Read(p []byte) (int, error) {
	s.reads++
	if s.reads > readHorizon {
		// the generators swallow reader errors and would spin: leave by panic
		panic(xplore.Truncated{})
	}
	if len(p) == 0 {
		return 0, nil
	}
	if s.dry {
		return 0, io.EOF
	}
	class := classify()
	defer func() { s.lastClass = class }()
	switch class {
	case "coin":
		opts := []byte{2, 1, 0, 6, 5}
		c := s.x.Choose(len(opts), "coin")
		fill(p, 0)
		p[len(p)-1] = opts[c]
		s.log = append(s.log, fmt.Sprintf("coin=%d", opts[c]))
	case "size":
		c := s.x.Choose(6, "size")
		// consecutive size reads are rejection retries of rand.Int: the default
		// answer halves each time so that it is accepted for any maximum
		if s.lastClass == "size" {
			s.sizeRetry++
		} else {
			s.sizeRetry = 0
		}
		switch c {
		case 0:
			fill(p, 0xff)
			shiftRight(p, 1+s.sizeRetry)
		case 1, 2, 3:
			putBE(p, uint64(c))
		case 4:
			fill(p, 0)
		case 5:
			fill(p, 0xff)
		}
		s.log = append(s.log, fmt.Sprintf("size#%d", c))
	case "index":
		s.wordReads++
		if s.forceWord >= 0 && s.wordReads == 1 {
			s.lastWord = s.forceWord
			putBE(p, uint64(s.forceWord))
			s.log = append(s.log, fmt.Sprintf("word=%d(forced)", s.forceWord))
			break
		}
		if s.dupRun > 0 && s.wordReads >= 2 && s.wordReads <= s.dupRun+1 {
			putBE(p, uint64(s.lastWord))
			s.log = append(s.log, fmt.Sprintf("word=%d(dup-run)", s.lastWord))
			break
		}
		c := s.x.Choose(5, "word")
		idx := s.nextWord
		switch c {
		case 0:
			s.nextWord++
			if s.nextWord == dupWordIdx {
				s.nextWord++
			}
		case 1:
			idx = s.lastWord
		case 2:
			idx = 0
		case 3:
			idx = 1
		case 4:
			idx = dupWordIdx
			if idx < 0 {
				idx = wordPeriod - 1
			}
		}
		s.lastWord = idx
		putBE(p, uint64(idx))
		s.log = append(s.log, fmt.Sprintf("word=%d", idx))
	case "ext":
		s.extReads++
		if s.forceExt >= 0 && s.extReads == 1 {
			putBE(p, uint64(s.forceExt))
			s.log = append(s.log, fmt.Sprintf("ext=%d(forced)", s.forceExt))
			break
		}
		// default: a non-empty extension (".txt"), so that duplicate detection
		// has to look through the extension; alternatives: none, ".pdf"
		opts := []uint64{1, 0, 2}
		c := s.x.Choose(len(opts), "ext")
		putBE(p, opts[c])
		s.log = append(s.log, fmt.Sprintf("ext=%d", opts[c]))
	case "content":
		menu := 2
		if s.allowDry {
			menu = 3
		}
		c := s.x.Choose(menu, "content")
		if c == 2 {
			// a finite random source ends inside this file's content
			s.dry = true
			n := len(p) / 2
			for i := 0; i < n; i++ {
				p[i] = byte(0xA0 + i)
			}
			s.log = append(s.log, fmt.Sprintf("dry-after=%d", n))
			return n, io.EOF
		}
		if c == 0 {
			for i := range p {
				p[i] = byte(s.reads*31 + i*7 + 1)
			}
		} else {
			fill(p, 0)
		}
	default:
		c := s.x.Choose(3, "generic")
		switch c {
		case 0:
			for i := range p {
				p[i] = byte(s.reads*13 + i + 1)
			}
		case 1:
			fill(p, 0)
		case 2:
			fill(p, 0xff)
		}
	}
	return len(p), nil
}

// ---------------------------------------------------------------------------
// independent read-back

type rbNode struct {
	Cid      cid.Cid
	IsDir    bool
	Content  []byte
	Children map[string]*rbNode
}

func lsOf(s *store.Store) *ipld.LinkSystem {
	ls := s.LinkSystem()
	unixfsnode.AddUnixFSReificationToLinkSystem(ls)
	ls.NodeReifier = unixfsnode.Reify
	return ls
}

func readBack(s *store.Store, c cid.Cid, depth int) (*rbNode, error) {
	if depth > 40 {
		return nil, fmt.Errorf("too deep")
	}
	ls := s.LinkSystem()
	var proto datamodel.NodePrototype = basicnode.Prototype.Any
	if c.Prefix().Codec == cid.DagProtobuf {
		proto = dagpb.Type.PBNode
	}
	raw, err := ls.Load(ipld.LinkContext{Ctx: context.Background()}, cidlink.Link{Cid: c}, proto)
	if err != nil {
		return nil, err
	}
	n, err := unixfsnode.Reify(ipld.LinkContext{}, raw, ls)
	if err != nil {
		return nil, err
	}
	out := &rbNode{Cid: c}
	if n.Kind() == datamodel.Kind_Bytes {
		out.Content, err = n.AsBytes()
		return out, err
	}
	out.IsDir = true
	out.Children = map[string]*rbNode{}
	it := n.MapIterator()
	for steps := 0; !it.Done(); steps++ {
		if steps > 100000 {
			return nil, fmt.Errorf("iteration does not terminate")
		}
		k, v, err := it.Next()
		if err != nil {
			return nil, err
		}
		ks, _ := k.AsString()
		l, err := v.AsLink()
		if err != nil {
			return nil, err
		}
		if _, dup := out.Children[ks]; dup {
			return nil, fmt.Errorf("stored directory lists %q twice", ks)
		}
		ch, err := readBack(s, l.(cidlink.Link).Cid, depth+1)
		if err != nil {
			return nil, fmt.Errorf("%q: %w", ks, err)
		}
		out.Children[ks] = ch
	}
	return out, nil
}

func lastSeg(p string) string { return p[strings.LastIndex(p, "/")+1:] }

// compareDesc compares a description with the read-back by entry name.
func compareDesc(de testutil.DirEntry, rb *rbNode, pathRule bool, at string) string {
	if !de.Root.Equals(rb.Cid) {
		return fmt.Sprintf("%s: description root %s, stored %s", at, de.Root, rb.Cid)
	}
	if !rb.IsDir {
		if len(de.Children) != 0 {
			return fmt.Sprintf("%s: described with %d children but the stored node is a file", at, len(de.Children))
		}
		if !bytes.Equal(de.Content, rb.Content) {
			return fmt.Sprintf("%s: described content (%d bytes) differs from the stored file (%d bytes)", at, len(de.Content), len(rb.Content))
		}
		return ""
	}
	seen := map[string]bool{}
	for _, ch := range de.Children {
		name := lastSeg(ch.Path)
		if name == "" {
			return fmt.Sprintf("%s: child described with an empty name (path %q)", at, ch.Path)
		}
		if seen[name] {
			return fmt.Sprintf("%s: sibling name %q described twice", at, name)
		}
		seen[name] = true
		if pathRule && ch.Path != de.Path+"/"+name {
			return fmt.Sprintf("%s: child path %q is not parent path %q + \"/\" + name %q", at, ch.Path, de.Path, name)
		}
		r, ok := rb.Children[name]
		if !ok {
			return fmt.Sprintf("%s: described child %q is not in the stored directory (stored: %v)", at, name, keys(rb.Children))
		}
		if d := compareDesc(ch, r, pathRule, at+"/"+name); d != "" {
			return d
		}
	}
	for n := range rb.Children {
		if !seen[n] {
			return fmt.Sprintf("%s: stored directory has entry %q which the description lacks", at, n)
		}
	}
	return ""
}

func keys(m map[string]*rbNode) []string {
	var out []string
	for k := range m {
		out = append(out, k)
	}
	sort.Strings(out)
	return out
}

// ---------------------------------------------------------------------------
// generator configurations

type genCfg struct {
	Gen      string `json:"gen"`
	Size     int    `json:"size,omitempty"`
	Bitwidth int    `json:"bitwidth,omitempty"`
	Custom   bool   `json:"custom_child_generator,omitempty"`
	Sharded  bool   `json:"sharded,omitempty"`
	Path     string `json:"wrap_path,omitempty"`
	Excl     bool   `json:"exclusive,omitempty"`
	Dirname  string `json:"dirname,omitempty"`
	DupRun   int    `json:"dup_run,omitempty"`
}

func (g genCfg) String() string {
	b, _ := json.Marshal(g)
	return string(b)
}

type c19Replay struct {
	Cfg     genCfg `json:"cfg"`
	Choices []int  `json:"choices"`
}

// runGen runs one generator under scripted randomness inside sub-test t and
// checks the description. Returns "" or a violation "sig :: detail".
func runGen(t *testing.T, g genCfg, x *xplore.Ctx) (sig, detail string) {
	return runGenForced(t, g, x, -1, -1)
}

func runGenForced(t *testing.T, g genCfg, x *xplore.Ctx, forceWord, forceExt int) (sig, detail string) {
	s := store.New()
	ls := lsOf(s)
	rnd := &scriptedRand{x: x, forceWord: forceWord, forceExt: forceExt}
	rnd.allowDry = g.Gen == "UnixFSFile" || (g.Gen == "UnixFSDirectory" && g.Custom)
	rnd.dupRun = g.DupRun
	pathRule, full := false, false
	var de testutil.DirEntry
	var err error
	switch g.Gen {
	case "UnixFSFile":
		de, err = testutil.UnixFSFile(*ls, g.Size, testutil.WithRandReader(rnd), testutil.WithChunker("size-4"))
	case "UnixFSDirectory":
		opts := []testutil.Option{testutil.WithRandReader(rnd)}
		if g.Size < 1024 {
			// multi-block files; above that one content read per file keeps
			// the default execution inside the horizon
			opts = append(opts, testutil.WithChunker("size-4"))
		}
		if g.Bitwidth > 0 {
			opts = append(opts, testutil.WithShardBitwidth(g.Bitwidth))
		}
		if g.Dirname != "" {
			opts = append(opts, testutil.WithDirname(g.Dirname))
		}
		if g.Custom {
			made := 0
			opts = append(opts, testutil.WithChildGenerator(func(name string) (*testutil.DirEntry, error) {
				if made == 3 {
					return nil, nil
				}
				made++
				f, err := testutil.UnixFSFile(*ls, 5+made, testutil.WithRandReader(rnd), testutil.WithChunker("size-4"))
				if err != nil {
					return nil, err
				}
				f.Path = name
				return &f, nil
			}))
		}
		de, err = testutil.UnixFSDirectory(*ls, g.Size, opts...)
		pathRule, full = true, true
	case "GenerateDirectory":
		de = testutil.GenerateDirectory(t, ls, rnd, g.Size, g.Sharded)
		pathRule, full = true, true
	case "GenerateDirectoryFrom":
		de = testutil.GenerateDirectoryFrom(t, ls, rnd, g.Size, "", g.Sharded)
		pathRule, full = true, true
	case "BuildDirectory":
		var ch []testutil.DirEntry
		// incl. siblings that share a stem and differ in the extension only
		// ... and names that are byte strings, not text (Latin-1, a lone 0xff,
		// two names differing only in an invalid byte)
		for i, p := range []string{"a", "sub/b", "/abs/c d", "é", "report.pdf", "report.txt", "~after", "~after.d", "caf\xe9.txt", "caf\xe8.txt", "sub/\xff"} {
			f := testutil.GenerateFile(t, ls, rnd, 3+i)
			f.Path = p
			ch = append(ch, f)
		}
		// ... and a child described by a CIDv0 root (a sub-directory named the
		// way go-ipfs names dag-pb nodes by default): the stored link is that CID
		{
			leaf := testutil.GenerateFile(t, ls, rnd, 5)
			leaf.Path = "inner"
			sub := testutil.BuildDirectory(t, ls, []testutil.DirEntry{leaf}, false)
			if sub.Root.Prefix().Codec == cid.DagProtobuf && sub.Root.Prefix().MhType == 0x12 && sub.Root.Prefix().MhLength == 32 {
				sub.Root = cid.NewCidV0(sub.Root.Hash())
			}
			sub.Path = "v0dir"
			ch = append(ch, sub)
		}
		de = testutil.BuildDirectory(t, ls, ch, g.Sharded)
	case "WrapContent":
		f := testutil.GenerateFile(t, ls, rnd, 9)
		de = testutil.WrapContent(t, rnd, ls, f, g.Path, g.Excl)
	default:
		return "harness", "unknown generator " + g.Gen
	}
	if err != nil {
		if rnd.dry {
			return "", "" // no tree from an exhausted source: nothing was described
		}
		return "generator-error " + g.Gen, fmt.Sprintf("%s: %v (reads: %v)", g, err, rnd.log)
	}
	rb, rerr := readBack(s, de.Root, 0)
	if rerr != nil {
		return "stored-dag-unreadable " + g.Gen, fmt.Sprintf("%s: %v", g, rerr)
	}
	if d := compareDesc(de, rb, pathRule, ""); d != "" {
		kind := "description-differs"
		switch {
		case strings.Contains(d, "empty name"):
			kind = "empty-sibling-name"
		case strings.Contains(d, "described twice"):
			kind = "duplicate-sibling-name"
		case strings.Contains(d, "is not parent path"):
			kind = "child-path-rule"
		}
		return kind + " " + g.Gen, fmt.Sprintf("%s: %s (reads: %v)", g, d, rnd.log)
	}
	if full {
		// the library's own read-back and comparison must agree too
		ok := t.Run("cmp", func(t *testing.T) {
			// read back under the path the directory was generated at
			back := testutil.ToDirEntryFrom(t, *ls, de.Root, g.Dirname, true)
			testutil.CompareDirEntries(t, de, back)
		})
		if !ok {
			return "CompareDirEntries-fails " + g.Gen, fmt.Sprintf("%s: CompareDirEntries(description, ToDirEntry(root)) failed (reads: %v)", g, rnd.log)
		}
	}
	return "", ""
}

func configs(quick bool) []genCfg {
	var out []genCfg
	for _, sz := range []int{0, 1, 3, 4, 5, 9} {
		out = append(out, genCfg{Gen: "UnixFSFile", Size: sz})
	}
	sizes := []int{64, 2048}
	if !quick {
		sizes = []int{64, 96, 2048, 4096}
	}
	for _, sz := range sizes {
		for _, bw := range []int{0, 3} {
			out = append(out, genCfg{Gen: "UnixFSDirectory", Size: sz, Bitwidth: bw})
		}
		for _, sh := range []bool{false, true} {
			out = append(out, genCfg{Gen: "GenerateDirectory", Size: sz, Sharded: sh})
		}
	}
	out = append(out, genCfg{Gen: "UnixFSDirectory", Size: 64, Custom: true}, genCfg{Gen: "UnixFSDirectory", Size: 64, Custom: true, Bitwidth: 3})
	// a directory built as a child: its own path is the dirname as given, its
	// entries' paths are that plus "/" plus their name, whatever the spelling
	for _, dn := range []string{"top", "/top", "a/b", "/top/", "./x"} {
		out = append(out, genCfg{Gen: "UnixFSDirectory", Size: 64, Dirname: dn}, genCfg{Gen: "UnixFSDirectory", Size: 64, Dirname: dn, Custom: true})
	}
	// runs of 9 and 40 consecutive draws of a name already used
	for _, dr := range []int{9, 40} {
		out = append(out, genCfg{Gen: "UnixFSDirectory", Size: 64, DupRun: dr}, genCfg{Gen: "UnixFSDirectory", Size: 64, Bitwidth: 3, DupRun: dr},
			genCfg{Gen: "GenerateDirectory", Size: 64, DupRun: dr})
	}
	out = append(out, genCfg{Gen: "GenerateDirectoryFrom", Size: 64, Sharded: true})
	out = append(out, genCfg{Gen: "BuildDirectory"}, genCfg{Gen: "BuildDirectory", Sharded: true})
	// paths with empty segments name the same entries as without them
	for _, p := range []string{"want", "outer/want", "/outer/want/", "outer//want", "", "/", "caf\xe9/want", "outer/\xff"} {
		for _, ex := range []bool{true, false} {
			out = append(out, genCfg{Gen: "WrapContent", Path: p, Excl: ex})
		}
	}
	return out
}

func boundFor(g genCfg, quick bool) int {
	if quick {
		if g.Gen == "WrapContent" && !g.Excl {
			return 0
		}
		if g.Gen == "UnixFSDirectory" && g.Size == 2048 && !g.Custom {
			return 2 // a sub-directory that finishes early needs two deviations
		}
		if g.Size >= 2048 || (g.Gen != "UnixFSFile" && g.Gen != "BuildDirectory" && !(g.Gen == "WrapContent")) {
			return 1
		}
		return 2
	}
	if g.Gen == "WrapContent" && !g.Excl {
		return 1
	}
	return 2
}

func TestC19(t *testing.T) {
	tier := os.Getenv("VERIF_TIER")
	if tier != "thorough" {
		tier = "quick"
	}
	learnWords()
	if os.Getenv("VERIF_C19_RACE") != "" {
		raceScenario(t, tier == "quick")
		os.Exit(0)
	}
	if rp := os.Getenv("VERIF_REPLAY"); rp != "" {
		os.Exit(replay(t, rp))
	}
	r := core.NewRun("C19", tier)
	r.Rule("stateless DFS over the answers of the generators' random source: every Read is a choice point with a menu chosen by the calling site (coin: file/dir/finish/rejected value; size: near-max,1,2,3,0 (empty-file retry),all-ones (rejection retry); word index: next unused, same as previous (duplicate retry), 0, 1, a word occurring twice in the list; extension; content: counter pattern or zeros = equal CIDs); plus a sweep drawing every word of the list and every extension once as the first name; all sequences within the stated deviation bound from the default (file, near-max size, next unused word), horizon 600 reads; generators: UnixFSFile, UnixFSDirectory (default and custom child generator, with/without shard bit-width), GenerateDirectory[From] (sharded or not), BuildDirectory, WrapContent; oracle: description == independent read-back walk by entry name (+ path rule and the library's own CompareDirEntries(ToDirEntry) for the directory generators)")
	r.Assume("word list length and a duplicated word are learned through namegen's public API; target sizes 16*2^k so that the default size answer is accepted")
	quick := tier == "quick"
	cfgs := configs(quick)
	type stat struct {
		Cfg        string `json:"generator"`
		Bound      int    `json:"deviation_bound"`
		Executions int    `json:"executions"`
		Truncated  int    `json:"truncated"`
		MaxDepth   int    `json:"max_reads"`
	}
	var mu sync.Mutex
	var stats []stat
	var wg sync.WaitGroup
	type divergence struct {
		g       genCfg
		choices []int
		a, b    string
	}
	var diverged []divergence
	// few configurations run at a time, each with its level-1 subtrees spread
	// over several goroutines
	perCfgWorkers := 4
	sem := make(chan struct{}, (runtime.NumCPU()+perCfgWorkers-1)/perCfgWorkers)
	for i, g := range cfgs {
		i, g := i, g
		wg.Add(1)
		sem <- struct{}{}
		go func() {
			defer wg.Done()
			defer func() { <-sem }()
			bound := boundFor(g, quick)
			ex := &xplore.Explorer{Bound: bound, Horizon: 5 * readHorizon, Replay: 2, MaxExecs: 250000, OnDiverge: func(ch []int, a, b string) {
				// decided after the exploration, when nothing else runs (see below)
				mu.Lock()
				if len(diverged) < 50 {
					diverged = append(diverged, divergence{g, append([]int{}, ch...), a, b})
				}
				mu.Unlock()
			}}
			outcomes := map[string]bool{}
			ex.ExploreParallel(perCfgWorkers, func(x *xplore.Ctx) string {
				var sig, detail string
				var trunc bool
				ok := t.Run("x", func(st *testing.T) {
					defer func() {
						if v := recover(); v != nil {
							if _, isT := v.(xplore.Truncated); isT {
								trunc = true
								return
							}
							if d, isD := v.(xplore.Diverged); isD {
								sig, detail = "harness-diverged", d.Error()
								return
							}
							sig, detail = "panic "+g.Gen, fmt.Sprintf("%s: %v", g, v)
						}
					}()
					sig, detail = runGen(st, g, x)
				})
				if trunc {
					panic(xplore.Truncated{})
				}
				if !ok && sig == "" {
					sig, detail = "require-failed "+g.Gen, fmt.Sprintf("%s: a require inside the generator failed", g)
				}
				if sig != "" {
					r.Violate(sig, detail+fmt.Sprintf(" choices=%v", x.Choices), c19Replay{g, append([]int{}, x.Choices...)})
					return "violation:" + sig
				}
				return "ok"
			}, func(res xplore.Result) {
				mu.Lock()
				outcomes[res.Obs] = true
				mu.Unlock()
			})
			mu.Lock()
			stats = append(stats, stat{g.String(), bound, ex.Stats.Executions, ex.Stats.Truncated, ex.Stats.MaxDepth})
			mu.Unlock()
			if ex.Stats.Capped {
				r.Cap("execution cap hit for " + g.String())
			}
			r.Evaluations.Add(int64(ex.Stats.Executions))
			r.Traces.Add(int64(ex.Stats.Executions))
			r.Transitions.Add(int64(ex.Stats.ChoicePoints))
			r.States.Add(1)
			r.Distinct(g.String())
			if i%5 == 0 {
				r.Sample(map[string]any{"generator": g, "bound": bound, "executions": ex.Stats.Executions})
			}
		}()
	}
	wg.Wait()
	// The executions above run side by side (independent stores and random
	// sources). One choice sequence giving two outcomes is either the harness's
	// fault or the generators': replayed three times with nothing else running,
	// a sequence that is deterministic alone was disturbed by the OTHER calls
	// in flight -- generator calls that share no argument influence each other.
	for _, d := range diverged {
		var outs []string
		for k := 0; k < 3; k++ {
			var sig string
			xplore.RunOne(d.choices, nil, 5*readHorizon, func(x *xplore.Ctx) string {
				t.Run("alone", func(st *testing.T) {
					defer func() { recover() }()
					sig, _ = runGen(st, d.g, x)
				})
				return ""
			})
			outs = append(outs, sig)
		}
		if outs[0] == outs[1] && outs[1] == outs[2] {
			r.Violate("outcome-depends-on-other-calls "+d.g.Gen, fmt.Sprintf("%s choices=%v: run side by side with other, unrelated generator calls the same random-source answers gave %q and %q; run alone three times they give %q every time (state shared between calls)", d.g, d.choices, d.a, d.b, outs[0]), nil)
		} else {
			r.InternalError(fmt.Sprintf("nondeterministic replay %s %v: %q vs %q (alone: %q)", d.g, d.choices, d.a, d.b, outs))
		}
	}
	// auxiliary evidence: the free-running -race pass over concurrent generator
	// calls (run.sh runs it first, from a separate -race build)
	if b, err := os.ReadFile(os.Getenv("VERIF_RACE_LOG")); err == nil {
		reports := strings.Count(string(b), "WARNING: DATA RACE") + strings.Count(string(b), "fatal error: concurrent map")
		r.Set("aux_race_pass", map[string]any{"reports": reports, "log_bytes": len(b)})
		if reports > 0 {
			var fr []string
			for _, l := range strings.Split(string(b), "\n") {
				l = strings.TrimSpace(l)
				if strings.HasPrefix(l, "github.com/ipfs/go-unixfsnode") && len(fr) < 4 {
					fr = append(fr, strings.TrimPrefix(l, "github.com/ipfs/go-unixfsnode/"))
				}
			}
			r.Violate("race-detector-report", fmt.Sprintf("generator calls that share no argument, run on separate goroutines: the -race pass printed %d report(s): %s", reports, strings.Join(fr, " ; ")), nil)
		}
	} else {
		r.Set("aux_race_pass", "not run")
	}
	// every drawable name once: each word of the list (and each extension) as
	// the first name drawn, all other answers default
	sweep := 0
	for _, g := range []genCfg{{Gen: "GenerateDirectory", Size: 64}, {Gen: "GenerateDirectory", Size: 64, Sharded: true}, {Gen: "UnixFSDirectory", Size: 64}} {
		for w := 0; w < wordPeriod+9; w++ {
			fw, fe := w, -1
			if w >= wordPeriod {
				fw, fe = -1, w-wordPeriod
			}
			g, fw, fe := g, fw, fe
			var sig, detail string
			res := xplore.RunOne(nil, nil, 5*readHorizon, func(x *xplore.Ctx) string {
				ok := t.Run("sweep", func(st *testing.T) {
					defer func() {
						if v := recover(); v != nil {
							if _, isT := v.(xplore.Truncated); !isT {
								sig, detail = "panic "+g.Gen, fmt.Sprint(v)
							}
						}
					}()
					sig, detail = runGenForced(st, g, x, fw, fe)
				})
				if !ok && sig == "" {
					sig, detail = "require-failed "+g.Gen, "a require inside the generator failed"
				}
				return ""
			})
			_ = res
			sweep++
			if sig != "" {
				r.Violate(sig+" name-sweep", fmt.Sprintf("%s first word index %d / extension index %d: %s", g, fw, fe, detail), nil)
			}
		}
	}
	r.Evaluations.Add(int64(sweep))
	r.Set("name_sweep_executions", sweep)
	sort.Slice(stats, func(i, j int) bool { return stats[i].Cfg < stats[j].Cfg })
	r.Set("per_generator", stats)
	r.Set("word_list_length", wordPeriod)
	os.Exit(r.Finish())
}

// raceScenario: the free-running pass (built with -race): every generator
// configuration called from 6 goroutines at once, each call with its own store
// and its own scripted random source (default answers). The calls share no
// argument; whatever the race detector reports is state shared inside the
// generators.
func raceScenario(t *testing.T, quick bool) {
	cfgs := configs(true)
	rounds := 3
	if !quick {
		rounds = 12
	}
	for round := 0; round < rounds; round++ {
		var wg sync.WaitGroup
		for w := 0; w < 6; w++ {
			w := w
			wg.Add(1)
			go func() {
				defer wg.Done()
				for i := range cfgs {
					g := cfgs[(i+w*7)%len(cfgs)]
					xplore.RunOne(nil, nil, 5*readHorizon, func(x *xplore.Ctx) string {
						t.Run("race", func(st *testing.T) {
							defer func() { recover() }()
							runGen(st, g, x)
						})
						return ""
					})
				}
			}()
		}
		wg.Wait()
	}
}

func replay(t *testing.T, path string) int {
	b, err := os.ReadFile(path)
	if err != nil {
		fmt.Println(err)
		return 2
	}
	var f struct {
		Case c19Replay `json:"case"`
	}
	if err := json.Unmarshal(b, &f); err != nil {
		fmt.Println(err)
		return 2
	}
	var sig, detail string
	res := xplore.RunOne(f.Case.Choices, nil, 5*readHorizon, func(x *xplore.Ctx) string {
		t.Run("replay", func(st *testing.T) { sig, detail = runGen(st, f.Case.Cfg, x) })
		return ""
	})
	if res.Panic != nil {
		sig, detail = "panic", fmt.Sprint(res.Panic)
	}
	if sig == "" {
		fmt.Printf("replay %s: case passes on this tree\n", path)
		return 0
	}
	fmt.Printf("replay %s: still fails: %s :: %s\nVIOLATION property=C19 replay=%s\n", path, sig, detail, path)
	return 1
}
