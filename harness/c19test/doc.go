// Package c19test holds the C19 check. It is built with `go test -c` because
// the fixture generators under test (testutil.ToDirEntry, CompareDirEntries,
// WrapContent) take a *testing.T; every explored execution runs in its own
// t.Run so that a failing `require` is captured per execution.
package c19test
