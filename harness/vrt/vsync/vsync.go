//go:build overlay

// Package vsync replaces "sync" in the instrumented packages: with no
// scheduler attached it is the real thing; with one attached every operation
// is a visible, modelled, possibly blocking step.
package vsync

import (
	"sync"
	"unsafe"

	"github.com/ipfs/go-unixfsnode/verifrt"
)

type Locker = sync.Locker
type WaitGroup = sync.WaitGroup
type Map = sync.Map

// Pool models sync.Pool deterministically and adversarially: Get hands back the
// most recently Put object whenever there is one (sync.Pool may do exactly
// that, on any goroutine), so an object still referenced after its Put is seen
// to be reused on every schedule in which another Get follows.
type Pool struct {
	New  func() any
	mu   sync.Mutex
	free []any
}

func (p *Pool) Get() any {
	p.mu.Lock()
	if n := len(p.free); n > 0 {
		x := p.free[n-1]
		p.free = p.free[:n-1]
		p.mu.Unlock()
		return x
	}
	p.mu.Unlock()
	if p.New != nil {
		return p.New()
	}
	return nil
}

func (p *Pool) Put(x any) {
	if x == nil {
		return
	}
	p.mu.Lock()
	p.free = append(p.free, x)
	p.mu.Unlock()
}

type Mutex struct{ mu sync.Mutex }

func (m *Mutex) Lock() {
	if verifrt.Sync != nil {
		verifrt.Sync(verifrt.EvLock, uintptr(unsafe.Pointer(m)))
		return
	}
	m.mu.Lock()
}

func (m *Mutex) Unlock() {
	if verifrt.Sync != nil {
		verifrt.Sync(verifrt.EvUnlock, uintptr(unsafe.Pointer(m)))
		return
	}
	m.mu.Unlock()
}

func (m *Mutex) TryLock() bool {
	if verifrt.Sync != nil {
		panic("vsync: TryLock is not modelled")
	}
	return m.mu.TryLock()
}

type RWMutex struct{ mu sync.RWMutex }

func (m *RWMutex) Lock() {
	if verifrt.Sync != nil {
		verifrt.Sync(verifrt.EvLock, uintptr(unsafe.Pointer(m)))
		return
	}
	m.mu.Lock()
}

func (m *RWMutex) Unlock() {
	if verifrt.Sync != nil {
		verifrt.Sync(verifrt.EvUnlock, uintptr(unsafe.Pointer(m)))
		return
	}
	m.mu.Unlock()
}

func (m *RWMutex) RLock() {
	if verifrt.Sync != nil {
		verifrt.Sync(verifrt.EvRLock, uintptr(unsafe.Pointer(m)))
		return
	}
	m.mu.RLock()
}

func (m *RWMutex) RUnlock() {
	if verifrt.Sync != nil {
		verifrt.Sync(verifrt.EvRUnlock, uintptr(unsafe.Pointer(m)))
		return
	}
	m.mu.RUnlock()
}

func (m *RWMutex) RLocker() Locker { return (*rlocker)(m) }

type rlocker RWMutex

func (r *rlocker) Lock()   { (*RWMutex)(r).RLock() }
func (r *rlocker) Unlock() { (*RWMutex)(r).RUnlock() }

type Once struct{ o sync.Once }

func (o *Once) Do(f func()) {
	if verifrt.Sync != nil {
		addr := uintptr(unsafe.Pointer(o))
		if verifrt.Sync(verifrt.EvOnceEnter, addr) == 1 {
			defer verifrt.Sync(verifrt.EvOnceDone, addr)
			f()
		}
		return
	}
	o.o.Do(f)
}

func OnceFunc(f func()) func() {
	var o Once
	return func() { o.Do(f) }
}

// OnceValue / OnceValues: as in package sync, on top of the modelled Once
// (panics of f are not re-raised on later calls; none of this code relies on it).
func OnceValue[T any](f func() T) func() T {
	var o Once
	var v T
	return func() T {
		o.Do(func() { v = f() })
		return v
	}
}

func OnceValues[T1, T2 any](f func() (T1, T2)) func() (T1, T2) {
	var o Once
	var v1 T1
	var v2 T2
	return func() (T1, T2) {
		o.Do(func() { v1, v2 = f() })
		return v1, v2
	}
}

func (m *RWMutex) TryLock() bool {
	if verifrt.Sync != nil {
		panic("vsync: TryLock is not modelled")
	}
	return m.mu.TryLock()
}

func (m *RWMutex) TryRLock() bool {
	if verifrt.Sync != nil {
		panic("vsync: TryRLock is not modelled")
	}
	return m.mu.TryRLock()
}

// Cond is the real condition variable over a (possibly modelled) Locker. A Wait
// under the cooperative scheduler would block the only running thread; code that
// waits on conditions is outside what the scheduler models (reported as a
// deadlock of the scenario).
type Cond = sync.Cond

func NewCond(l Locker) *Cond { return sync.NewCond(l) }
