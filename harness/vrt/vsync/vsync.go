//go:build overlay

// Package vsync replaces "sync" in the instrumented packages: with no
// scheduler attached it is the real thing; with one attached every operation
// is a visible, modelled, possibly blocking step.
package vsync

import (
	"sync"
	"unsafe"

	"github.com/ipfs/go-unixfsnode/verifrt"
)

type Locker = sync.Locker
type WaitGroup = sync.WaitGroup
type Map = sync.Map
type Pool = sync.Pool

type Mutex struct{ mu sync.Mutex }

func (m *Mutex) Lock() {
	if verifrt.Sync != nil {
		verifrt.Sync(verifrt.EvLock, uintptr(unsafe.Pointer(m)))
		return
	}
	m.mu.Lock()
}

func (m *Mutex) Unlock() {
	if verifrt.Sync != nil {
		verifrt.Sync(verifrt.EvUnlock, uintptr(unsafe.Pointer(m)))
		return
	}
	m.mu.Unlock()
}

func (m *Mutex) TryLock() bool {
	if verifrt.Sync != nil {
		panic("vsync: TryLock is not modelled")
	}
	return m.mu.TryLock()
}

type RWMutex struct{ mu sync.RWMutex }

func (m *RWMutex) Lock() {
	if verifrt.Sync != nil {
		verifrt.Sync(verifrt.EvLock, uintptr(unsafe.Pointer(m)))
		return
	}
	m.mu.Lock()
}

func (m *RWMutex) Unlock() {
	if verifrt.Sync != nil {
		verifrt.Sync(verifrt.EvUnlock, uintptr(unsafe.Pointer(m)))
		return
	}
	m.mu.Unlock()
}

func (m *RWMutex) RLock() {
	if verifrt.Sync != nil {
		verifrt.Sync(verifrt.EvRLock, uintptr(unsafe.Pointer(m)))
		return
	}
	m.mu.RLock()
}

func (m *RWMutex) RUnlock() {
	if verifrt.Sync != nil {
		verifrt.Sync(verifrt.EvRUnlock, uintptr(unsafe.Pointer(m)))
		return
	}
	m.mu.RUnlock()
}

func (m *RWMutex) RLocker() Locker { return (*rlocker)(m) }

type rlocker RWMutex

func (r *rlocker) Lock()   { (*RWMutex)(r).RLock() }
func (r *rlocker) Unlock() { (*RWMutex)(r).RUnlock() }

type Once struct{ o sync.Once }

func (o *Once) Do(f func()) {
	if verifrt.Sync != nil {
		addr := uintptr(unsafe.Pointer(o))
		if verifrt.Sync(verifrt.EvOnceEnter, addr) == 1 {
			defer verifrt.Sync(verifrt.EvOnceDone, addr)
			f()
		}
		return
	}
	o.o.Do(f)
}

func OnceFunc(f func()) func() {
	var o Once
	return func() { o.Do(f) }
}
