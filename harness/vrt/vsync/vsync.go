//go:build overlay

// Package vsync replaces "sync" in the instrumented packages: with no
// scheduler attached it is the real thing; with one attached every operation
// is a visible, modelled, possibly blocking step.
package vsync

import (
	"sync"
	"unsafe"

	"github.com/ipfs/go-unixfsnode/verifrt"
)

type Locker = sync.Locker

// WaitGroup: counter and waiting are modelled by the scheduler.
type WaitGroup struct{ wg sync.WaitGroup }

func (w *WaitGroup) Add(delta int) {
	if verifrt.Sync != nil {
		addr := uintptr(unsafe.Pointer(w))
		for i := 0; i < delta; i++ {
			verifrt.Sync(verifrt.EvWGAdd, addr)
		}
		for i := 0; i < -delta; i++ {
			verifrt.Sync(verifrt.EvWGDone, addr)
		}
		return
	}
	w.wg.Add(delta)
}

func (w *WaitGroup) Done() { w.Add(-1) }

func (w *WaitGroup) Wait() {
	if verifrt.Sync != nil {
		verifrt.Sync(verifrt.EvWGWait, uintptr(unsafe.Pointer(w)))
		return
	}
	w.wg.Wait()
}

// Map is the real sync.Map; every operation is in addition a visible step that
// synchronises with every other operation on the same Map (more
// happens-before edges than the memory model promises, never fewer: the race
// oracle stays free of false reports).
type Map struct{ m sync.Map }

func (m *Map) ev() {
	if verifrt.Sync != nil {
		verifrt.Sync(verifrt.EvAtomicRMW, uintptr(unsafe.Pointer(m)))
	}
}
func (m *Map) Load(k any) (any, bool)           { m.ev(); return m.m.Load(k) }
func (m *Map) Store(k, v any)                   { m.ev(); m.m.Store(k, v) }
func (m *Map) LoadOrStore(k, v any) (any, bool) { m.ev(); return m.m.LoadOrStore(k, v) }
func (m *Map) LoadAndDelete(k any) (any, bool)  { m.ev(); return m.m.LoadAndDelete(k) }
func (m *Map) Delete(k any)                     { m.ev(); m.m.Delete(k) }
func (m *Map) Swap(k, v any) (any, bool)        { m.ev(); return m.m.Swap(k, v) }
func (m *Map) CompareAndSwap(k, o, n any) bool  { m.ev(); return m.m.CompareAndSwap(k, o, n) }
func (m *Map) CompareAndDelete(k, o any) bool   { m.ev(); return m.m.CompareAndDelete(k, o) }
func (m *Map) Clear()                           { m.ev(); m.m.Clear() }
func (m *Map) Range(f func(k, v any) bool) {
	m.ev()
	// snapshot first: f may call back into the Map
	type kv struct{ k, v any }
	var all []kv
	m.m.Range(func(k, v any) bool { all = append(all, kv{k, v}); return true })
	for _, e := range all {
		if !f(e.k, e.v) {
			return
		}
	}
}

// Pool models sync.Pool deterministically and adversarially: Get hands back the
// most recently Put object whenever there is one (sync.Pool may do exactly
// that, on any goroutine), so an object still referenced after its Put is seen
// to be reused on every schedule in which another Get follows.
type Pool struct {
	New  func() any
	mu   sync.Mutex
	free []any
}

func (p *Pool) Get() any {
	if verifrt.Sync != nil {
		// a Put happens-before the Get that returns its object
		verifrt.Sync(verifrt.EvAtomicRMW, uintptr(unsafe.Pointer(p)))
	}
	p.mu.Lock()
	if n := len(p.free); n > 0 {
		x := p.free[n-1]
		p.free = p.free[:n-1]
		p.mu.Unlock()
		return x
	}
	p.mu.Unlock()
	if p.New != nil {
		return p.New()
	}
	return nil
}

func (p *Pool) Put(x any) {
	if x == nil {
		return
	}
	if verifrt.Sync != nil {
		verifrt.Sync(verifrt.EvAtomicRMW, uintptr(unsafe.Pointer(p)))
	}
	p.mu.Lock()
	p.free = append(p.free, x)
	p.mu.Unlock()
}

type Mutex struct{ mu sync.Mutex }

func (m *Mutex) Lock() {
	if verifrt.Sync != nil {
		verifrt.Sync(verifrt.EvLock, uintptr(unsafe.Pointer(m)))
		return
	}
	m.mu.Lock()
}

func (m *Mutex) Unlock() {
	if verifrt.Sync != nil {
		verifrt.Sync(verifrt.EvUnlock, uintptr(unsafe.Pointer(m)))
		return
	}
	m.mu.Unlock()
}

func (m *Mutex) TryLock() bool {
	if verifrt.Sync != nil {
		return verifrt.Sync(verifrt.EvTryLock, uintptr(unsafe.Pointer(m))) == 1
	}
	return m.mu.TryLock()
}

type RWMutex struct{ mu sync.RWMutex }

func (m *RWMutex) Lock() {
	if verifrt.Sync != nil {
		verifrt.Sync(verifrt.EvLock, uintptr(unsafe.Pointer(m)))
		return
	}
	m.mu.Lock()
}

func (m *RWMutex) Unlock() {
	if verifrt.Sync != nil {
		verifrt.Sync(verifrt.EvUnlock, uintptr(unsafe.Pointer(m)))
		return
	}
	m.mu.Unlock()
}

func (m *RWMutex) RLock() {
	if verifrt.Sync != nil {
		verifrt.Sync(verifrt.EvRLock, uintptr(unsafe.Pointer(m)))
		return
	}
	m.mu.RLock()
}

func (m *RWMutex) RUnlock() {
	if verifrt.Sync != nil {
		verifrt.Sync(verifrt.EvRUnlock, uintptr(unsafe.Pointer(m)))
		return
	}
	m.mu.RUnlock()
}

func (m *RWMutex) RLocker() Locker { return (*rlocker)(m) }

type rlocker RWMutex

func (r *rlocker) Lock()   { (*RWMutex)(r).RLock() }
func (r *rlocker) Unlock() { (*RWMutex)(r).RUnlock() }

type Once struct{ o sync.Once }

func (o *Once) Do(f func()) {
	if verifrt.Sync != nil {
		addr := uintptr(unsafe.Pointer(o))
		if verifrt.Sync(verifrt.EvOnceEnter, addr) == 1 {
			defer verifrt.Sync(verifrt.EvOnceDone, addr)
			f()
		}
		return
	}
	o.o.Do(f)
}

func OnceFunc(f func()) func() {
	var o Once
	return func() { o.Do(f) }
}

// OnceValue / OnceValues: as in package sync, on top of the modelled Once
// (panics of f are not re-raised on later calls; none of this code relies on it).
func OnceValue[T any](f func() T) func() T {
	var o Once
	var v T
	return func() T {
		o.Do(func() { v = f() })
		return v
	}
}

func OnceValues[T1, T2 any](f func() (T1, T2)) func() (T1, T2) {
	var o Once
	var v1 T1
	var v2 T2
	return func() (T1, T2) {
		o.Do(func() { v1, v2 = f() })
		return v1, v2
	}
}

func (m *RWMutex) TryLock() bool {
	if verifrt.Sync != nil {
		return verifrt.Sync(verifrt.EvTryLock, uintptr(unsafe.Pointer(m))) == 1
	}
	return m.mu.TryLock()
}

func (m *RWMutex) TryRLock() bool {
	if verifrt.Sync != nil {
		return verifrt.Sync(verifrt.EvTryRLock, uintptr(unsafe.Pointer(m))) == 1
	}
	return m.mu.TryRLock()
}

// Cond: waiting and waking are modelled by the scheduler (the waiter is
// registered before it releases the lock, as sync.Cond.Wait does atomically).
type Cond struct {
	L Locker
	c *sync.Cond
}

func NewCond(l Locker) *Cond { return &Cond{L: l, c: sync.NewCond(l)} }

func (c *Cond) Wait() {
	if verifrt.Sync != nil {
		addr := uintptr(unsafe.Pointer(c))
		verifrt.Sync(verifrt.EvCondEnq, addr)
		c.L.Unlock()
		verifrt.Sync(verifrt.EvCondWait, addr)
		c.L.Lock()
		return
	}
	c.c.Wait()
}

func (c *Cond) Signal() {
	if verifrt.Sync != nil {
		verifrt.Sync(verifrt.EvCondSignal, uintptr(unsafe.Pointer(c)))
		return
	}
	c.c.Signal()
}

func (c *Cond) Broadcast() {
	if verifrt.Sync != nil {
		verifrt.Sync(verifrt.EvCondBcast, uintptr(unsafe.Pointer(c)))
		return
	}
	c.c.Broadcast()
}
