//go:build overlay

// Package vatomic replaces "sync/atomic" in the instrumented packages; every
// operation is reported to the scheduler before it is performed.
package vatomic

import (
	"sync/atomic"
	"unsafe"

	"github.com/ipfs/go-unixfsnode/verifrt"
)

func ev(kind int, p unsafe.Pointer) {
	if verifrt.Sync != nil {
		verifrt.Sync(kind, uintptr(p))
	}
}

type Int32 struct{ v atomic.Int32 }

func (x *Int32) Load() int32        { ev(verifrt.EvAtomicLoad, unsafe.Pointer(x)); return x.v.Load() }
func (x *Int32) Store(v int32)      { ev(verifrt.EvAtomicStore, unsafe.Pointer(x)); x.v.Store(v) }
func (x *Int32) Swap(v int32) int32 { ev(verifrt.EvAtomicRMW, unsafe.Pointer(x)); return x.v.Swap(v) }
func (x *Int32) Add(d int32) int32  { ev(verifrt.EvAtomicRMW, unsafe.Pointer(x)); return x.v.Add(d) }
func (x *Int32) And(m int32) int32  { ev(verifrt.EvAtomicRMW, unsafe.Pointer(x)); return x.v.And(m) }
func (x *Int32) Or(m int32) int32   { ev(verifrt.EvAtomicRMW, unsafe.Pointer(x)); return x.v.Or(m) }
func (x *Int32) CompareAndSwap(o, n int32) bool {
	ev(verifrt.EvAtomicRMW, unsafe.Pointer(x))
	return x.v.CompareAndSwap(o, n)
}

func LoadInt32(p *int32) int32 {
	ev(verifrt.EvAtomicLoad, unsafe.Pointer(p))
	return atomic.LoadInt32(p)
}
func StoreInt32(p *int32, v int32) {
	ev(verifrt.EvAtomicStore, unsafe.Pointer(p))
	atomic.StoreInt32(p, v)
}
func SwapInt32(p *int32, v int32) int32 {
	ev(verifrt.EvAtomicRMW, unsafe.Pointer(p))
	return atomic.SwapInt32(p, v)
}
func AddInt32(p *int32, d int32) int32 {
	ev(verifrt.EvAtomicRMW, unsafe.Pointer(p))
	return atomic.AddInt32(p, d)
}
func AndInt32(p *int32, m int32) int32 {
	ev(verifrt.EvAtomicRMW, unsafe.Pointer(p))
	return atomic.AndInt32(p, m)
}
func OrInt32(p *int32, m int32) int32 {
	ev(verifrt.EvAtomicRMW, unsafe.Pointer(p))
	return atomic.OrInt32(p, m)
}
func CompareAndSwapInt32(p *int32, o, n int32) bool {
	ev(verifrt.EvAtomicRMW, unsafe.Pointer(p))
	return atomic.CompareAndSwapInt32(p, o, n)
}

type Int64 struct{ v atomic.Int64 }

func (x *Int64) Load() int64        { ev(verifrt.EvAtomicLoad, unsafe.Pointer(x)); return x.v.Load() }
func (x *Int64) Store(v int64)      { ev(verifrt.EvAtomicStore, unsafe.Pointer(x)); x.v.Store(v) }
func (x *Int64) Swap(v int64) int64 { ev(verifrt.EvAtomicRMW, unsafe.Pointer(x)); return x.v.Swap(v) }
func (x *Int64) Add(d int64) int64  { ev(verifrt.EvAtomicRMW, unsafe.Pointer(x)); return x.v.Add(d) }
func (x *Int64) And(m int64) int64  { ev(verifrt.EvAtomicRMW, unsafe.Pointer(x)); return x.v.And(m) }
func (x *Int64) Or(m int64) int64   { ev(verifrt.EvAtomicRMW, unsafe.Pointer(x)); return x.v.Or(m) }
func (x *Int64) CompareAndSwap(o, n int64) bool {
	ev(verifrt.EvAtomicRMW, unsafe.Pointer(x))
	return x.v.CompareAndSwap(o, n)
}

func LoadInt64(p *int64) int64 {
	ev(verifrt.EvAtomicLoad, unsafe.Pointer(p))
	return atomic.LoadInt64(p)
}
func StoreInt64(p *int64, v int64) {
	ev(verifrt.EvAtomicStore, unsafe.Pointer(p))
	atomic.StoreInt64(p, v)
}
func SwapInt64(p *int64, v int64) int64 {
	ev(verifrt.EvAtomicRMW, unsafe.Pointer(p))
	return atomic.SwapInt64(p, v)
}
func AddInt64(p *int64, d int64) int64 {
	ev(verifrt.EvAtomicRMW, unsafe.Pointer(p))
	return atomic.AddInt64(p, d)
}
func AndInt64(p *int64, m int64) int64 {
	ev(verifrt.EvAtomicRMW, unsafe.Pointer(p))
	return atomic.AndInt64(p, m)
}
func OrInt64(p *int64, m int64) int64 {
	ev(verifrt.EvAtomicRMW, unsafe.Pointer(p))
	return atomic.OrInt64(p, m)
}
func CompareAndSwapInt64(p *int64, o, n int64) bool {
	ev(verifrt.EvAtomicRMW, unsafe.Pointer(p))
	return atomic.CompareAndSwapInt64(p, o, n)
}

type Uint32 struct{ v atomic.Uint32 }

func (x *Uint32) Load() uint32   { ev(verifrt.EvAtomicLoad, unsafe.Pointer(x)); return x.v.Load() }
func (x *Uint32) Store(v uint32) { ev(verifrt.EvAtomicStore, unsafe.Pointer(x)); x.v.Store(v) }
func (x *Uint32) Swap(v uint32) uint32 {
	ev(verifrt.EvAtomicRMW, unsafe.Pointer(x))
	return x.v.Swap(v)
}
func (x *Uint32) Add(d uint32) uint32 { ev(verifrt.EvAtomicRMW, unsafe.Pointer(x)); return x.v.Add(d) }
func (x *Uint32) And(m uint32) uint32 { ev(verifrt.EvAtomicRMW, unsafe.Pointer(x)); return x.v.And(m) }
func (x *Uint32) Or(m uint32) uint32  { ev(verifrt.EvAtomicRMW, unsafe.Pointer(x)); return x.v.Or(m) }
func (x *Uint32) CompareAndSwap(o, n uint32) bool {
	ev(verifrt.EvAtomicRMW, unsafe.Pointer(x))
	return x.v.CompareAndSwap(o, n)
}

func LoadUint32(p *uint32) uint32 {
	ev(verifrt.EvAtomicLoad, unsafe.Pointer(p))
	return atomic.LoadUint32(p)
}
func StoreUint32(p *uint32, v uint32) {
	ev(verifrt.EvAtomicStore, unsafe.Pointer(p))
	atomic.StoreUint32(p, v)
}
func SwapUint32(p *uint32, v uint32) uint32 {
	ev(verifrt.EvAtomicRMW, unsafe.Pointer(p))
	return atomic.SwapUint32(p, v)
}
func AddUint32(p *uint32, d uint32) uint32 {
	ev(verifrt.EvAtomicRMW, unsafe.Pointer(p))
	return atomic.AddUint32(p, d)
}
func AndUint32(p *uint32, m uint32) uint32 {
	ev(verifrt.EvAtomicRMW, unsafe.Pointer(p))
	return atomic.AndUint32(p, m)
}
func OrUint32(p *uint32, m uint32) uint32 {
	ev(verifrt.EvAtomicRMW, unsafe.Pointer(p))
	return atomic.OrUint32(p, m)
}
func CompareAndSwapUint32(p *uint32, o, n uint32) bool {
	ev(verifrt.EvAtomicRMW, unsafe.Pointer(p))
	return atomic.CompareAndSwapUint32(p, o, n)
}

type Uint64 struct{ v atomic.Uint64 }

func (x *Uint64) Load() uint64   { ev(verifrt.EvAtomicLoad, unsafe.Pointer(x)); return x.v.Load() }
func (x *Uint64) Store(v uint64) { ev(verifrt.EvAtomicStore, unsafe.Pointer(x)); x.v.Store(v) }
func (x *Uint64) Swap(v uint64) uint64 {
	ev(verifrt.EvAtomicRMW, unsafe.Pointer(x))
	return x.v.Swap(v)
}
func (x *Uint64) Add(d uint64) uint64 { ev(verifrt.EvAtomicRMW, unsafe.Pointer(x)); return x.v.Add(d) }
func (x *Uint64) And(m uint64) uint64 { ev(verifrt.EvAtomicRMW, unsafe.Pointer(x)); return x.v.And(m) }
func (x *Uint64) Or(m uint64) uint64  { ev(verifrt.EvAtomicRMW, unsafe.Pointer(x)); return x.v.Or(m) }
func (x *Uint64) CompareAndSwap(o, n uint64) bool {
	ev(verifrt.EvAtomicRMW, unsafe.Pointer(x))
	return x.v.CompareAndSwap(o, n)
}

func LoadUint64(p *uint64) uint64 {
	ev(verifrt.EvAtomicLoad, unsafe.Pointer(p))
	return atomic.LoadUint64(p)
}
func StoreUint64(p *uint64, v uint64) {
	ev(verifrt.EvAtomicStore, unsafe.Pointer(p))
	atomic.StoreUint64(p, v)
}
func SwapUint64(p *uint64, v uint64) uint64 {
	ev(verifrt.EvAtomicRMW, unsafe.Pointer(p))
	return atomic.SwapUint64(p, v)
}
func AddUint64(p *uint64, d uint64) uint64 {
	ev(verifrt.EvAtomicRMW, unsafe.Pointer(p))
	return atomic.AddUint64(p, d)
}
func AndUint64(p *uint64, m uint64) uint64 {
	ev(verifrt.EvAtomicRMW, unsafe.Pointer(p))
	return atomic.AndUint64(p, m)
}
func OrUint64(p *uint64, m uint64) uint64 {
	ev(verifrt.EvAtomicRMW, unsafe.Pointer(p))
	return atomic.OrUint64(p, m)
}
func CompareAndSwapUint64(p *uint64, o, n uint64) bool {
	ev(verifrt.EvAtomicRMW, unsafe.Pointer(p))
	return atomic.CompareAndSwapUint64(p, o, n)
}

type Uintptr struct{ v atomic.Uintptr }

func (x *Uintptr) Load() uintptr   { ev(verifrt.EvAtomicLoad, unsafe.Pointer(x)); return x.v.Load() }
func (x *Uintptr) Store(v uintptr) { ev(verifrt.EvAtomicStore, unsafe.Pointer(x)); x.v.Store(v) }
func (x *Uintptr) Swap(v uintptr) uintptr {
	ev(verifrt.EvAtomicRMW, unsafe.Pointer(x))
	return x.v.Swap(v)
}
func (x *Uintptr) Add(d uintptr) uintptr {
	ev(verifrt.EvAtomicRMW, unsafe.Pointer(x))
	return x.v.Add(d)
}
func (x *Uintptr) And(m uintptr) uintptr {
	ev(verifrt.EvAtomicRMW, unsafe.Pointer(x))
	return x.v.And(m)
}
func (x *Uintptr) Or(m uintptr) uintptr { ev(verifrt.EvAtomicRMW, unsafe.Pointer(x)); return x.v.Or(m) }
func (x *Uintptr) CompareAndSwap(o, n uintptr) bool {
	ev(verifrt.EvAtomicRMW, unsafe.Pointer(x))
	return x.v.CompareAndSwap(o, n)
}

func LoadUintptr(p *uintptr) uintptr {
	ev(verifrt.EvAtomicLoad, unsafe.Pointer(p))
	return atomic.LoadUintptr(p)
}
func StoreUintptr(p *uintptr, v uintptr) {
	ev(verifrt.EvAtomicStore, unsafe.Pointer(p))
	atomic.StoreUintptr(p, v)
}
func SwapUintptr(p *uintptr, v uintptr) uintptr {
	ev(verifrt.EvAtomicRMW, unsafe.Pointer(p))
	return atomic.SwapUintptr(p, v)
}
func AddUintptr(p *uintptr, d uintptr) uintptr {
	ev(verifrt.EvAtomicRMW, unsafe.Pointer(p))
	return atomic.AddUintptr(p, d)
}
func AndUintptr(p *uintptr, m uintptr) uintptr {
	ev(verifrt.EvAtomicRMW, unsafe.Pointer(p))
	return atomic.AndUintptr(p, m)
}
func OrUintptr(p *uintptr, m uintptr) uintptr {
	ev(verifrt.EvAtomicRMW, unsafe.Pointer(p))
	return atomic.OrUintptr(p, m)
}
func CompareAndSwapUintptr(p *uintptr, o, n uintptr) bool {
	ev(verifrt.EvAtomicRMW, unsafe.Pointer(p))
	return atomic.CompareAndSwapUintptr(p, o, n)
}

type Bool struct{ v atomic.Bool }

func (x *Bool) Load() bool       { ev(verifrt.EvAtomicLoad, unsafe.Pointer(x)); return x.v.Load() }
func (x *Bool) Store(v bool)     { ev(verifrt.EvAtomicStore, unsafe.Pointer(x)); x.v.Store(v) }
func (x *Bool) Swap(v bool) bool { ev(verifrt.EvAtomicRMW, unsafe.Pointer(x)); return x.v.Swap(v) }
func (x *Bool) CompareAndSwap(o, n bool) bool {
	ev(verifrt.EvAtomicRMW, unsafe.Pointer(x))
	return x.v.CompareAndSwap(o, n)
}

type Value struct{ v atomic.Value }

func (x *Value) Load() any      { ev(verifrt.EvAtomicLoad, unsafe.Pointer(x)); return x.v.Load() }
func (x *Value) Store(v any)    { ev(verifrt.EvAtomicStore, unsafe.Pointer(x)); x.v.Store(v) }
func (x *Value) Swap(v any) any { ev(verifrt.EvAtomicRMW, unsafe.Pointer(x)); return x.v.Swap(v) }
func (x *Value) CompareAndSwap(o, n any) bool {
	ev(verifrt.EvAtomicRMW, unsafe.Pointer(x))
	return x.v.CompareAndSwap(o, n)
}

type Pointer[T any] struct{ v atomic.Pointer[T] }

func (x *Pointer[T]) Load() *T     { ev(verifrt.EvAtomicLoad, unsafe.Pointer(x)); return x.v.Load() }
func (x *Pointer[T]) Store(v *T)   { ev(verifrt.EvAtomicStore, unsafe.Pointer(x)); x.v.Store(v) }
func (x *Pointer[T]) Swap(v *T) *T { ev(verifrt.EvAtomicRMW, unsafe.Pointer(x)); return x.v.Swap(v) }
func (x *Pointer[T]) CompareAndSwap(o, n *T) bool {
	ev(verifrt.EvAtomicRMW, unsafe.Pointer(x))
	return x.v.CompareAndSwap(o, n)
}

func LoadPointer(p *unsafe.Pointer) unsafe.Pointer {
	ev(verifrt.EvAtomicLoad, unsafe.Pointer(p))
	return atomic.LoadPointer(p)
}
func StorePointer(p *unsafe.Pointer, v unsafe.Pointer) {
	ev(verifrt.EvAtomicStore, unsafe.Pointer(p))
	atomic.StorePointer(p, v)
}
func SwapPointer(p *unsafe.Pointer, v unsafe.Pointer) unsafe.Pointer {
	ev(verifrt.EvAtomicRMW, unsafe.Pointer(p))
	return atomic.SwapPointer(p, v)
}
func CompareAndSwapPointer(p *unsafe.Pointer, o, n unsafe.Pointer) bool {
	ev(verifrt.EvAtomicRMW, unsafe.Pointer(p))
	return atomic.CompareAndSwapPointer(p, o, n)
}
