//go:build overlay

// Package verifrt is injected into the module under test by the overlay
// instrumenter (it never exists in /repo). It carries the seams the explorer
// owns: field-access hooks, map-iteration order, and synchronisation events.
package verifrt

import (
	"fmt"
	"sort"
	"unsafe"
)

// Access kinds reported to Hook.
const (
	AccRead  = 0
	AccWrite = 1
	// AccUse: a package-level variable of reference type is used as a method
	// receiver or call argument: the variable is read, whatever it refers to
	// may be mutated by the callee.
	AccUse = 2
)

// Hook, when set, is called before every instrumented access (struct fields
// and package-level variables of the instrumented packages).
var Hook func(addr uintptr, kind int, site string)

// escape forces every hooked object onto the heap: stack slots are recycled
// between goroutines when stacks grow, which would make two unrelated
// thread-local objects look like one shared location to the race oracle.
var escape unsafe.Pointer

// R marks a read of *p.
func R[T any](p *T, site string) *T {
	if Hook != nil {
		escape = unsafe.Pointer(p)
		Hook(uintptr(unsafe.Pointer(p)), AccRead, site)
	}
	return p
}

// W marks a write of *p.
func W[T any](p *T, site string) *T {
	if Hook != nil {
		escape = unsafe.Pointer(p)
		Hook(uintptr(unsafe.Pointer(p)), AccWrite, site)
	}
	return p
}

// M marks a use of the reference held in *p by a callee that may mutate what
// it refers to.
func M[T any](p *T, site string) *T {
	if Hook != nil {
		escape = unsafe.Pointer(p)
		Hook(uintptr(unsafe.Pointer(p)), AccUse, site)
	}
	return p
}

// RMap marks a read through a map-typed field: of the field slot, and of the
// map object it holds (a map value is a pointer to its header; two structs
// holding the same map share that location).
func RMap[T any](p *T, site string) *T {
	if Hook != nil {
		escape = unsafe.Pointer(p)
		Hook(uintptr(unsafe.Pointer(p)), AccRead, site)
		if mp := *(*unsafe.Pointer)(unsafe.Pointer(p)); mp != nil {
			Hook(uintptr(mp), AccRead, site+"[map]")
		}
	}
	return p
}

// WMap marks an element write / delete through a map-typed field.
func WMap[T any](p *T, site string) *T {
	if Hook != nil {
		escape = unsafe.Pointer(p)
		Hook(uintptr(unsafe.Pointer(p)), AccWrite, site)
		if mp := *(*unsafe.Pointer)(unsafe.Pointer(p)); mp != nil {
			Hook(uintptr(mp), AccWrite, site+"[map]")
		}
	}
	return p
}

// Perm, when set, returns the permutation (of 0..n-1) in which a map of n keys
// is iterated at site. nil = ascending key order.
var Perm func(n int, site string) []int

// MapKeys replaces `range m`: keys in ascending (rendered) order, permuted by
// Perm when an explorer is attached.
func MapKeys[K comparable, V any](m map[K]V, site string) []K {
	keys := make([]K, 0, len(m))
	for k := range m {
		keys = append(keys, k)
	}
	sort.Slice(keys, func(i, j int) bool { return less(keys[i], keys[j]) })
	if Perm != nil && len(keys) > 1 {
		p := Perm(len(keys), site)
		if p != nil {
			out := make([]K, len(keys))
			for i, j := range p {
				out[i] = keys[j]
			}
			return out
		}
	}
	return keys
}

func less(a, b any) bool {
	switch x := a.(type) {
	case int:
		return x < b.(int)
	case int64:
		return x < b.(int64)
	case string:
		return x < b.(string)
	}
	return fmt.Sprint(a) < fmt.Sprint(b)
}

// SyncEvent kinds reported by the vsync / vatomic shims.
const (
	EvLock = iota
	EvUnlock
	EvRLock
	EvRUnlock
	EvOnceEnter // about to run or wait for Once.Do
	EvOnceDone
	EvAtomicLoad
	EvAtomicStore
	EvAtomicRMW
	EvTryLock    // returns 1 when acquired
	EvTryRLock   // returns 1 when acquired
	EvWGAdd      // WaitGroup counter +1
	EvWGDone     // WaitGroup counter -1
	EvWGWait     // blocks until the counter is 0
	EvCondEnq    // registers the caller as a waiter (before it unlocks)
	EvCondWait   // blocks until signalled
	EvCondSignal // wakes the longest waiter
	EvCondBcast  // wakes every waiter
)

// Sync, when set, is called by the shims around synchronisation operations
// and fully models them (the real primitive is not touched). For blocking
// kinds it returns only when the operation may proceed. For EvOnceEnter it
// returns 1 when the caller has to run the function, 0 when it is already done.
var Sync func(kind int, addr uintptr) int

// Spawn, when set, runs f as a new thread of the attached scheduler.
var Spawn func(f func())

// Go replaces the go statements of the instrumented packages (function value
// and arguments are evaluated by the caller, as the language requires).
func Go(f func()) {
	if Spawn != nil {
		Spawn(f)
		return
	}
	go f()
}
