//go:build overlay

// Package verifrt is injected into the module under test by the overlay
// instrumenter (it never exists in /repo). It carries the seams the explorer
// owns: field-access hooks, map-iteration order, and synchronisation events.
package verifrt

import (
	"fmt"
	"sort"
	"unsafe"
)

// Hook, when set, is called before every instrumented field access.
var Hook func(addr uintptr, write bool, site string)

// escape forces every hooked object onto the heap: stack slots are recycled
// between goroutines when stacks grow, which would make two unrelated
// thread-local objects look like one shared location to the race oracle.
var escape unsafe.Pointer

// R marks a read of *p.
func R[T any](p *T, site string) *T {
	if Hook != nil {
		escape = unsafe.Pointer(p)
		Hook(uintptr(unsafe.Pointer(p)), false, site)
	}
	return p
}

// W marks a write of *p.
func W[T any](p *T, site string) *T {
	if Hook != nil {
		escape = unsafe.Pointer(p)
		Hook(uintptr(unsafe.Pointer(p)), true, site)
	}
	return p
}

// Perm, when set, returns the permutation (of 0..n-1) in which a map of n keys
// is iterated at site. nil = ascending key order.
var Perm func(n int, site string) []int

// MapKeys replaces `range m`: keys in ascending (rendered) order, permuted by
// Perm when an explorer is attached.
func MapKeys[K comparable, V any](m map[K]V, site string) []K {
	keys := make([]K, 0, len(m))
	for k := range m {
		keys = append(keys, k)
	}
	sort.Slice(keys, func(i, j int) bool { return less(keys[i], keys[j]) })
	if Perm != nil && len(keys) > 1 {
		p := Perm(len(keys), site)
		if p != nil {
			out := make([]K, len(keys))
			for i, j := range p {
				out[i] = keys[j]
			}
			return out
		}
	}
	return keys
}

func less(a, b any) bool {
	switch x := a.(type) {
	case int:
		return x < b.(int)
	case int64:
		return x < b.(int64)
	case string:
		return x < b.(string)
	}
	return fmt.Sprint(a) < fmt.Sprint(b)
}

// SyncEvent kinds reported by the vsync / vatomic shims.
const (
	EvLock = iota
	EvUnlock
	EvRLock
	EvRUnlock
	EvOnceEnter // about to run or wait for Once.Do
	EvOnceDone
	EvAtomicLoad
	EvAtomicStore
	EvAtomicRMW
)

// Sync, when set, is called by the shims around synchronisation operations
// and fully models them (the real primitive is not touched). For blocking
// kinds it returns only when the operation may proceed. For EvOnceEnter it
// returns 1 when the caller has to run the function, 0 when it is already done.
var Sync func(kind int, addr uintptr) int
