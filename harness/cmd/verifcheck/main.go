// verifcheck runs one property check: `verifcheck <id> quick|thorough`, or
// re-runs one recorded case: `verifcheck replay <path>`.
package main

import (
	"bufio"
	"encoding/json"
	"fmt"
	"io"
	"os"
	"os/exec"
	"runtime/debug"
	"sort"
	"strings"

	"verif/harness/checks"
	"verif/harness/core"
)

func main() {
	if len(os.Args) >= 3 && os.Args[1] == "replay" {
		os.Exit(replay(os.Args[2]))
	}
	if len(os.Args) < 3 {
		var ids []string
		for id := range checks.Registry {
			ids = append(ids, id)
		}
		sort.Strings(ids)
		fmt.Fprintln(os.Stderr, "usage: verifcheck <id> quick|thorough | verifcheck replay <file>; ids:", ids)
		os.Exit(2)
	}
	id, tier := os.Args[1], os.Args[2]
	f, ok := checks.Registry[id]
	if !ok {
		fmt.Fprintln(os.Stderr, "unknown check", id)
		os.Exit(2)
	}
	if tier != "quick" && tier != "thorough" {
		fmt.Fprintln(os.Stderr, "tier must be quick or thorough")
		os.Exit(2)
	}
	if os.Getenv("VERIF_SUPERVISED") == "" {
		os.Exit(supervise(id, tier))
	}
	// legitimate executions recurse a few dozen frames; a runaway recursion
	// should die quickly instead of eating a gigabyte of stack first
	debug.SetMaxStack(64 << 20)
	r := core.NewRun(id, tier)
	core.PanicHook = func(v any, stack string) {
		if fr := core.LibraryFrame(stack); fr != "" {
			r.Violate("panic-escaped "+fr, fmt.Sprintf("panic out of the library: %v (first library frame %s)", v, fr), nil)
		} else {
			r.InternalError(fmt.Sprintf("panic in the harness: %v\n%s", v, stack))
		}
	}
	f(r)
	os.Exit(r.Finish())
}

func replay(path string) int {
	b, err := os.ReadFile(path)
	if err != nil {
		fmt.Fprintln(os.Stderr, err)
		return 2
	}
	var f struct {
		Property string          `json:"property"`
		Sig      string          `json:"sig"`
		Case     json.RawMessage `json:"case"`
	}
	if err := json.Unmarshal(b, &f); err != nil {
		fmt.Fprintln(os.Stderr, err)
		return 2
	}
	rp, ok := checks.Replayers[f.Property]
	if !ok {
		fmt.Fprintln(os.Stderr, "no replayer for", f.Property)
		return 2
	}
	out := rp(f.Case)
	if out == "" {
		fmt.Printf("replay %s: case passes on this tree\n", path)
		return 0
	}
	fmt.Printf("replay %s: still fails:\n%s", path, out)
	fmt.Printf("VIOLATION property=%s replay=%s\n", f.Property, path)
	return 1
}

// supervise runs the check in a child process. Go cannot recover from fatal
// runtime errors (stack overflow, concurrent map access): when the child dies
// of one and the dying goroutine was inside the library under test, that is a
// finding of the check, not a broken check.
func supervise(id, tier string) int {
	cmd := exec.Command(os.Args[0], id, tier)
	cmd.Env = append(os.Environ(), "VERIF_SUPERVISED=1")
	cmd.Stdout = os.Stdout
	stderr, err := cmd.StderrPipe()
	if err != nil {
		fmt.Fprintln(os.Stderr, "supervise:", err)
		return 2
	}
	if err := cmd.Start(); err != nil {
		fmt.Fprintln(os.Stderr, "supervise:", err)
		return 2
	}
	// keep the head of a fatal report (the crashing goroutine comes first) and pass stderr through
	var fatal []string
	inFatal := false
	breadcrumb := ""
	rd := bufio.NewReaderSize(stderr, 1<<16)
	for {
		line, err := rd.ReadString('\n')
		if line != "" {
			if strings.HasPrefix(line, "BREADCRUMB ") {
				breadcrumb = strings.TrimSpace(strings.TrimPrefix(line, "BREADCRUMB "))
			} else {
				if strings.HasPrefix(line, "fatal error:") || strings.Contains(line, "goroutine stack exceeds") {
					inFatal = true
				}
				if inFatal && len(fatal) < 400 {
					fatal = append(fatal, line)
				}
				if !inFatal || len(fatal) < 60 {
					io.WriteString(os.Stderr, line)
				}
			}
		}
		if err != nil {
			break
		}
	}
	werr := cmd.Wait()
	code := 0
	if werr != nil {
		if ee, ok := werr.(*exec.ExitError); ok {
			code = ee.ExitCode()
		} else {
			code = 2
		}
	}
	if code == 0 || code == 1 || len(fatal) == 0 {
		return code
	}
	kind := ""
	for _, l := range fatal {
		if strings.HasPrefix(l, "fatal error:") {
			kind = strings.TrimSpace(strings.TrimPrefix(l, "fatal error:"))
			break
		}
	}
	frame := core.LibraryFrame(strings.Join(fatal, ""))
	if frame == "" || !(strings.Contains(kind, "stack overflow") || strings.Contains(kind, "concurrent map")) {
		fmt.Fprintf(os.Stderr, "INTERNAL-ERROR: check process died (%s) outside the library under test\n", kind)
		return 2
	}
	r := core.NewRun(id, tier)
	r.Rule("the check process died of an unrecoverable runtime error inside the library under test; coverage of the run is lost, the crash itself is the finding")
	r.Evaluations.Add(1)
	r.States.Add(1)
	r.Transitions.Add(1)
	r.Distinct("crash")
	r.Distinct("crash/" + breadcrumb)
	r.Sample(map[string]any{"fatal_error": kind, "library_frame": frame, "while": breadcrumb})
	r.Cap("check process crashed")
	r.Violate("fatal-runtime-error "+kind+" "+frame, fmt.Sprintf("the Go runtime aborted the process (%s) in %s while exploring %s", kind, frame, breadcrumb), nil)
	return r.Finish()
}
