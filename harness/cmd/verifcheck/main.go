// verifcheck runs one property check: `verifcheck <id> quick|thorough`, or
// re-runs one recorded case: `verifcheck replay <path>`.
package main

import (
	"encoding/json"
	"fmt"
	"os"
	"sort"

	"verif/harness/checks"
	"verif/harness/core"
)

func main() {
	if len(os.Args) >= 3 && os.Args[1] == "replay" {
		os.Exit(replay(os.Args[2]))
	}
	if len(os.Args) < 3 {
		var ids []string
		for id := range checks.Registry {
			ids = append(ids, id)
		}
		sort.Strings(ids)
		fmt.Fprintln(os.Stderr, "usage: verifcheck <id> quick|thorough | verifcheck replay <file>; ids:", ids)
		os.Exit(2)
	}
	id, tier := os.Args[1], os.Args[2]
	f, ok := checks.Registry[id]
	if !ok {
		fmt.Fprintln(os.Stderr, "unknown check", id)
		os.Exit(2)
	}
	if tier != "quick" && tier != "thorough" {
		fmt.Fprintln(os.Stderr, "tier must be quick or thorough")
		os.Exit(2)
	}
	r := core.NewRun(id, tier)
	core.PanicHook = func(v any, stack string) {
		if fr := core.LibraryFrame(stack); fr != "" {
			r.Violate("panic-escaped "+fr, fmt.Sprintf("panic out of the library: %v (first library frame %s)", v, fr), nil)
		} else {
			r.InternalError(fmt.Sprintf("panic in the harness: %v\n%s", v, stack))
		}
	}
	f(r)
	os.Exit(r.Finish())
}

func replay(path string) int {
	b, err := os.ReadFile(path)
	if err != nil {
		fmt.Fprintln(os.Stderr, err)
		return 2
	}
	var f struct {
		Property string          `json:"property"`
		Sig      string          `json:"sig"`
		Case     json.RawMessage `json:"case"`
	}
	if err := json.Unmarshal(b, &f); err != nil {
		fmt.Fprintln(os.Stderr, err)
		return 2
	}
	rp, ok := checks.Replayers[f.Property]
	if !ok {
		fmt.Fprintln(os.Stderr, "no replayer for", f.Property)
		return 2
	}
	out := rp(f.Case)
	if out == "" {
		fmt.Printf("replay %s: case passes on this tree\n", path)
		return 0
	}
	fmt.Printf("replay %s: still fails:\n%s", path, out)
	fmt.Printf("VIOLATION property=%s replay=%s\n", f.Property, path)
	return 1
}
