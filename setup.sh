#!/bin/bash
# Pre-builds the harness to warm the Go build cache (offline).
set -eu
cd "$(dirname "$0")"
. ./env.sh
mkdir -p .work/bin evidence replays
(cd harness && go build -tags verif -o ../.work/bin/verifcheck ./cmd/verifcheck)
echo setup ok
