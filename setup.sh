#!/bin/bash
# Pre-builds everything the checks need, offline, to warm the Go build cache:
# the plain harness, the instrumenter + overlay build, the -race build and the
# C19 test binary. Each check re-builds (incrementally) on its own anyway.
set -u
cd "$(dirname "$0")"
. ./env.sh
mkdir -p .work/bin evidence replays
(cd harness && go build -tags verif -o ../.work/bin/verifcheck ./cmd/verifcheck) || { echo "setup: harness build failed" >&2; exit 1; }
(cd harness && go build -o ../.work/bin/instr ./instr) || { echo "setup: instrumenter build failed" >&2; exit 1; }
(cd harness && go test -c -tags verif -vet=off -o ../.work/bin/c19.test ./c19test) || echo "setup: c19 test binary build failed (C19 will retry)" >&2
(cd harness && go build -race -tags verif -o ../.work/bin/verifcheck-race ./cmd/verifcheck) 2>/dev/null || echo "setup: -race build unavailable (C17 aux pass will be skipped)" >&2
(cd harness && go test -c -race -tags verif -vet=off -o ../.work/bin/c19race.test ./c19test) 2>/dev/null || echo "setup: -race build of the C19 binary unavailable (aux pass will be skipped)" >&2
# instrument + overlay build through the normal path (C20 is the cheapest overlay check)
VERIF_OUT=$(pwd)/.work/setup-out ./run.sh C20 quick >/dev/null 2>&1 || echo "setup: overlay warm-up run did not pass (the check itself will report)" >&2
rm -rf .work/setup-out
echo setup ok
