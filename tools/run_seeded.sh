#!/bin/bash
# tools/run_seeded.sh [id...]: applies each /verif/seeded/<id>/patch.diff to
# /repo, runs the check(s) of its property (quick tier), reverts, and records
# the outcome in /verif/seeded/<id>/detection.txt.
cd /verif
ids=("$@"); [ ${#ids[@]} -eq 0 ] && ids=($(ls seeded))
for id in "${ids[@]}"; do
  prop=${id%%[-_]*}
  [ -f seeded/$id/obsolete.txt ] && { echo "skipped $id: no longer property-breaking on the current tree (seeded/$id/obsolete.txt)"; continue; }
  extra=$(cat seeded/$id/extra_checks.txt 2>/dev/null)
  patch=seeded/$id/patch.diff
  # a seed whose original patch no longer builds after a repair of /repo carries an adapted version
  [ -f seeded/$id/patch_adapted.diff ] && patch=seeded/$id/patch_adapted.diff
  out=$(tools/mutate.sh $patch $prop $extra 2>&1 | grep -E 'DETECTED|MISSED|NOT-BUILD|does not apply|not clean' | cut -c1-400)
  echo "$out" | sed "s/patch_adapted.diff/$id(adapted)/;s/patch.diff/$id/" | tee seeded/$id/detection.txt
done
