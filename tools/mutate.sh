#!/bin/bash
# tools/mutate.sh <patch> <check-id>... : applies a property-breaking patch to
# /repo, runs the given checks (quick), reverts. Prints DETECTED/MISSED per check.
set -u
patch=$(realpath "$1"); shift
# VERIF_ROOT: run the checks of another copy of /verif (a snapshot), so that the
# working copy can be edited while a long run is in progress
V=${VERIF_ROOT:-/verif}
cd /repo || exit 2
if [ -n "$(git status --porcelain)" ]; then echo "/repo not clean" >&2; exit 2; fi
git apply "$patch" || { echo "patch does not apply: $patch" >&2; exit 2; }
trap 'cd /repo && git checkout -- . && git clean -fdq' EXIT
. $V/env.sh
if ! go build ./... 2>/tmp/mut_build.log; then echo "MUTANT-DOES-NOT-BUILD $(basename $patch)"; cat /tmp/mut_build.log | head -5; exit 3; fi
rc=0
for id in "$@"; do
  tier=${TIER:-quick}
  out=$(cd $V && VERIF_OUT=/tmp/mutrun.$$ ./run.sh "$id" "$tier" 2>&1); code=$?
  nv=$(echo "$out" | grep -c '^VIOLATION')
  if [ $code -eq 1 ] && [ $nv -gt 0 ]; then echo "DETECTED $(basename $patch) by $id ($nv violation lines): $(echo "$out" | grep '^VIOLATION' | head -1 | cut -c1-300)";
  else echo "MISSED   $(basename $patch) by $id (exit $code): $(echo "$out" | tail -1 | cut -c1-200)"; rc=1; fi
done
rm -rf /tmp/mutrun.$$
exit $rc
