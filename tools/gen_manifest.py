#!/usr/bin/env python3
"""Generates /verif/MANIFEST.json from the table below (kept in one place so
that the manifest is always schema-valid). Run: python3 tools/gen_manifest.py"""
import json, os, subprocess

ROOT = os.path.dirname(os.path.dirname(os.path.abspath(__file__)))

# id -> (technique, level text, level note, design ref)
CHECKS = {
 "C01": ("bounded-exhaustive shape enumeration vs []byte model",
         "Every balanced-tree shape (all chunk counts 0..w^3+w+1 for small widths, width 174 at its boundaries), every writer (this builder, reference importer in 8 modes), every opener and every streamed buffer size is run against the real code and compared with the original bytes; exhaustive within the stated scope, not sampled.",
         "Small-scope argument: DAG shape depends only on chunk count relative to w^k. Byte values restricted to two patterns. Trusted: boxo importer as reference writer, gogo unixfs_pb for the declared size.",
         "DESIGN.md §5 C01"),
 "C02": ("bounded-exhaustive subset enumeration vs map model + exhaustive hashBits agreement sweep",
         "Every subset of a hash-colliding/awkward-name universe at every fanout 8..1024 (plus deep-collision universe, threshold-straddling and large generated sets) is built with the real builders, reified and compared with the Go map of its entries through all lookup entry points, both iterators and Length; both hashBits helpers are compared with plain arithmetic for every (width, level).",
         "Names limited to the universes; murmur3 implementation (spaolacci) shared with the code under test. hashBits sweep needs the verif-tagged export hooks.",
         "DESIGN.md §5 C02"),
 "C03": ("bounded-exhaustive tree x path x selector enumeration vs path-resolution model",
         "Every tree with <= 4/5 nodes over {single/multi-block file, symlink, plain dir (sorted and unsorted block), HAMT dir with colliding names; entry names incl. white-space variants, '..', '%2F' and names that parse as integers}, every path to every node and its slash/segment perturbations, 4 target selectors, matchPath on/off: the selector built by UnixFSPathSelectorBuilder is compiled and run with traversal.WalkMatching and the ordered visitor calls are compared with an independent literal-segment resolution. A known finding (matchPath=true never descends) is reported as KNOWN-FINDING.",
         "Traversal semantics of the pinned go-ipld-prime v0.21.0.",
         "DESIGN.md §5 C03"),
 "C06": ("bounded-exhaustive enumeration + exhaustive single-block withholding + deviation-bounded fault DFS",
         "Every file shape (both writers and hand-written legal encodings: dag-pb leaves, absent BlockSizes/FileSize, empty chunks) and sharded directory through the preload reifier, preload selector and entity selector+consume: requested set == entity blocks, no entry block; every single entity block withheld (three error kinds) and every k-th-load-fails sequence (<= 2 failures) must produce an error.",
         "Independent model of the entity's block set.",
         "DESIGN.md §5 C06"),
 "C10": ("stateless deviation-bounded DFS over map-iteration orders, entry permutations and reader fragmentation",
         "Builders compiled from an instrumented overlay in which every map range asks the explorer for its iteration order; together with all permutations of the entry slice and all fragmentations of the source reader within the deviation bound, every execution of one logical input must observe the same (link,size).",
         "Maps with > 4 keys get rotations/reversal/adjacent swaps, not all permutations. Overlay rewrite is add-only and leaves /repo untouched.",
         "DESIGN.md §5 C10"),
 "C12": ("exhaustive fault enumeration (single blocks, full powerset <= 10 blocks) + deviation-bounded transient-fault DFS",
         "Every single block and every subset of blocks (DAGs <= 10 blocks) withheld with three error kinds (not-found, opaque, bare io.ErrUnexpectedEOF), and every 'k-th load fails' sequence with <= 2 failures, on files (incl. repeated chunks and hand-written encodings without size information) and sharded directories from both writers: bytes before the error, error identity, lookup errors vs not-found, iteration entries and error counts are compared with an independent model.",
         "Powerset only for DAGs with <= 10 blocks (reported as cap).",
         "DESIGN.md §5 C12"),
 "C16": ("stateless deviation-bounded DFS over write faults and map orders with a crash-point invariant after every commit",
         "Every write-open/Write/commit of every build is a fail/succeed choice (all single failures and pairs), every map range an order choice; after each commit the store is checked for builder-written blocks whose links into the same build are not stored yet; failure => error and nil link, nil error => whole DAG stored.",
         "Build menu: files 0..10 chunks at w in {2,3}, symlink, plain/sharded dirs, recursive import, quick builder (ordering only).",
         "DESIGN.md §5 C16"),
 "C17": ("stateless model checking of thread interleavings (cooperative scheduler, iterative preemption bounding) + happens-before race oracle",
         "Real goroutines run one visible operation at a time (instrumented accesses to struct fields, the map objects held in map-typed fields and package-level variables, modelled locks/Once/atomics, block loads); all schedules within iterated preemption bounds (2 quick, 3 thorough) of 11 scenarios on one shared node are executed; every execution is checked for data races (co-enabled conflicting accesses, vector-clock analysis), result equality with the solo run, panics and deadlocks. A separate free-running -race pass is auxiliary evidence.",
         "Sequential consistency at the granularity of hooked accesses; weak-memory effects out of reach. Scheduling points restricted to sites found shared (fixpoint).",
         "DESIGN.md §5 C17"),
 "C18": ("bounded-exhaustive on-disk tree enumeration vs independent filesystem walk",
         "Every tree with <= 5/6 nodes over {dir, empty file, file, relative/absolute/dangling symlink with targets not in cleaned form} is created on a scratch directory, imported and read back through Reify; names, bytes and link targets are compared with an Lstat/ReadDir/Readlink/ReadFile walk; FIFOs and sockets at every position must be rejected; threshold-straddling and multi-chunk cases.",
         "Scratch directory under /dev/shm or $TMPDIR, removed per case.",
         "DESIGN.md §5 C18"),
 "C19": ("stateless deviation-bounded DFS over the answers of the generators' random source",
         "Every Read of the random source is a choice point with a site-specific menu (coin, size incl. retry triggers, word index incl. duplicates, extension, content); all answer sequences within the bound are run through every exported generator and the returned description is compared with an independent read-back of the stored DAG (and with the library's own CompareDirEntries for directory generators).",
         "Built as a test binary because the generators need *testing.T. Horizon 600 reads.",
         "DESIGN.md §5 C19"),
 "C04": ("explicit-state BFS over Seek/Read histories vs io.ReadSeeker model",
         "Breadth-first search over all histories of Read(k)/Seek(o,whence) with boundary arguments on single-block, wrapped and multi-level files, one and two readers (same node / separate nodes), deduplicated on the complete private state of the readers (reflection fingerprint over unexported fields: offsets, inner MultiReader, remaining child readers, any cache), until no new state; plus all depth-3 histories without deduplication.",
         "State key is exact (no abstraction); offsets confined to [-(L+1),2L+2]; searches capped at 40k/400k states (reported).",
         "DESIGN.md §5 C04"),
 "C09": ("bounded-exhaustive message product x deviation-bounded wire presentations, differential vs gogo-protobuf",
         "Full product of 290304 logical messages in canonical form, and every wire presentation within 1-2 deviations (field transposition, packed run, unknown fields, non-minimal varints) of a covering corpus plus all permutations of small messages, decoded by this library and by the gogo codec generated from unixfs.proto; encode direction, canonical byte equality and permission bits checked.",
         "Reference = gogo-protobuf codec of boxo's unixfs_pb. Values limited to the boundary menus.",
         "DESIGN.md §5 C09"),
 "C13": ("bounded-exhaustive byte strings + hostile DAG menus under recover() and step budget",
         "Every byte string up to length 4/5 over a protobuf-aware alphabet through the three decoders; every root block from payload x link menus (bitfield longer/shorter, fanout mismatch between parent and child, short names, lying sizes, missing blocks, wrong types) reified lazily and with preload and exercised through every node operation; single-child chains past the hash width and diamond chains (k blocks, 2^k paths: Length/preload must load O(k) blocks); a panic, a non-terminating iterator/read or a step-budget overrun is a violation.",
         "DAG depth <= 3, <= 3 links; work bound is a generous step budget on small DAGs, not an asymptotic statement.",
         "DESIGN.md §5 C13"),
 "C14": ("bounded-exhaustive dispatch-table enumeration",
         "Every node kind, every Data payload class (absent, garbage, each type, out-of-range, each invalid shard parameter) x link shapes x 3 reifier entry points x built/decoded, plus real files and shards from both writers: kind, error, name-addressable lookups, Substrate() identity and byte-exact re-encoding.",
         "Oracle is the statement's dispatch table written out by hand.",
         "DESIGN.md §5 C14"),
 "C15": ("bounded-exhaustive link-list enumeration vs map-node contract",
         "Every link list of length <= 4/5 over {absent,'',a,b} (all orders, duplicates) viewed as directory / link map (5 payload classes), built directly and decoded, and every sharded directory of the universe subsets from both writers: iteration count == Length, over-read error, yielded keys resolvable, unyielded keys absent, four lookup entry points and both iterators agree.",
         "Alphabet of 4 names.",
         "DESIGN.md §5 C15"),
 "C05": ("bounded-exhaustive range/lookup/path enumeration with request log vs independent block-span model + schedule exploration of concurrent range reads",
         "Every range [a,b) of every small file shape (both writers), every member/non-member lookup on every sharded directory of the universe subsets (cold and warm), every path (and perturbation) of every small tree (incl. unsorted directory blocks and white-space sibling names), every pair of requests on one reader, and (instrumented overlay build) every interleaving within 2 preemptions of two goroutines reading two ranges on one shared node: the set of links requested from storage must be a subset of what an independent walk of the stored blocks says the request needs.",
         "File DAGs are those either writer produces (BlockSizes present). Model parses dag-pb/UnixFS itself (protowire + gogo).",
         "DESIGN.md §5 C05"),
 "C07": ("bounded-exhaustive shape enumeration, differential vs reference balanced importer",
         "For every chunk count of small widths (every balanced shape incl. trailing single-child subtrees and chains), width 174 at its boundaries and content-defined chunkers, (link,size) of BuildUnixFSFile is compared with boxo balanced.Layout(raw leaves, CIDv1).",
         "Reference = boxo v0.24.0 (already a dependency). Contents limited to two patterns.",
         "DESIGN.md §5 C07"),
 "C08": ("explicit-state BFS over the reference HAMT (state key = root CID) + differential build",
         "BFS over Set/Remove histories of boxo's HAMT for every fanout until the frontier is empty; in every reachable state this library must read exactly the reference's entry set and the sharded builder must reproduce the reference root CID and size; plus all subsets of a deep-collision universe built fresh.",
         "Universe of 8 (quick) / 11 (thorough) names; canonical state key is the content address (exact). Reference = boxo v0.24.0.",
         "DESIGN.md §5 C08"),
 "C11": ("bounded-exhaustive enumeration vs recursive tree-sum model",
         "Every small file shape (incl. equal chunks where de-duplicated storage < tree sum), every universe subset as sharded/plain directory and directories of builder-written files, quick-builder trees with 1..4-chunk files (every Node.Size()), symlinks of 25 target lengths, 12 recursive imports, and two builds interleaved through one shared LinkSystem under the cooperative scheduler (preemption bound 2): returned size, every link Tsize, every interior FileSize/BlockSizes are recomputed from the stored blocks by an independent parser.",
         "Model = own dag-pb parser + gogo unixfs_pb over stored blocks.",
         "DESIGN.md §5 C11"),
 "C20": ("bounded-exhaustive enumeration with ordered request log vs independent DFS",
         "For every small file shape (both writers and hand-written encodings), sharded directory and tree path, the sequence of first requests per distinct link (full read, preload reifier/selector, entity selector, MapIterator, Length, path walk) must equal the depth-first link-order walk computed from the stored blocks; each run twice.",
         "Built from the instrumented overlay: every case runs under three iteration orders of every map range in the module, and twice in-process.",
         "DESIGN.md §5 C20"),
}

NOT_YET = "check not built yet in this round (work in progress, see DESIGN.md §11)"


def main():
    props = [json.loads(l)["id"] for l in open(os.path.join(ROOT, "properties.jsonl")) if l.strip()]
    hooks_commits = []
    hc = os.path.join(ROOT, "tools", "hook_commits.txt")
    if os.path.exists(hc):
        hooks_commits = [l.split()[0] for l in open(hc) if l.strip() and not l.startswith("#")]
    checks = []
    for pid in props:
        if pid not in CHECKS:
            continue
        tech, text, note, ref = CHECKS[pid]
        checks.append({
            "property_id": pid,
            "quick_cmd": f"./run.sh {pid} quick",
            "thorough_cmd": f"./run.sh {pid} thorough",
            "evidence_file": f"/verif/evidence/{pid}.json",
            "replay_cmd_template": "./run.sh replay {path}",
            "engine": "verifcheck",
            "level_claimed": {"category": "model_checking", "text": text, "design_ref": ref},
            "level_note": note,
            "technique": tech,
        })
    man = {
        "version": 1,
        "setup_cmd": "./setup.sh",
        "hooks": {
            "guard": "verif",
            "enable": "go build -tags verif (run.sh always builds the harness, and through its replace directive /repo's working tree, with -tags verif)",
            "baseline_off_cmd": "cd /repo && GOFLAGS=-mod=mod GOPROXY=off GOSUMDB=off GOTOOLCHAIN=local go test -json -vet=off -count=1 -timeout 25m ./...",
            "source_commits": hooks_commits,
            "add_only": True,
        },
        "engines": [
            {"name": "verifcheck", "path": "/verif/harness", "serves_properties": sorted(CHECKS),
             "kind_free_text": "hand-written Go explorer: bounded-exhaustive input enumeration, explicit-state BFS with canonical state keys, stateless deviation-bounded DFS over choice sequences (faults, map orders, fragmentation, schedules), all executing the real implementation from /repo against reference models"},
        ],
        "checks": checks,
        "not_applicable": [{"property_id": p, "reason": NOT_YET} for p in props if p not in CHECKS],
        "notes": "Every check rebuilds the harness against /repo's working tree (Go module replace) before running. Evidence is written by the check itself. known_findings.json lists genuine defects (fixed or recorded).",
    }
    with open(os.path.join(ROOT, "MANIFEST.json"), "w") as f:
        json.dump(man, f, indent=1)
        f.write("\n")
    print("wrote MANIFEST.json with", len(checks), "checks")


if __name__ == "__main__":
    main()
