#!/usr/bin/env python3
"""Generates /verif/MANIFEST.json from the table below (kept in one place so
that the manifest is always schema-valid). Run: python3 tools/gen_manifest.py"""
import json, os, subprocess

ROOT = os.path.dirname(os.path.dirname(os.path.abspath(__file__)))

# id -> (technique, level text, level note, design ref)
CHECKS = {
 "C01": ("bounded-exhaustive shape enumeration vs []byte model",
         "Every balanced-tree shape (all chunk counts 0..w^3+w+1 for small widths, width 174 at its boundaries), every writer (this builder, reference importer in 8 modes), every opener and every streamed buffer size is run against the real code and compared with the original bytes; exhaustive within the stated scope, not sampled.",
         "Small-scope argument: DAG shape depends only on chunk count relative to w^k. Byte values restricted to two patterns. Trusted: boxo importer as reference writer, gogo unixfs_pb for the declared size.",
         "DESIGN.md §5 C01"),
}

NOT_YET = "check not built yet in this round (work in progress, see DESIGN.md §11)"


def main():
    props = [json.loads(l)["id"] for l in open(os.path.join(ROOT, "properties.jsonl")) if l.strip()]
    hooks_commits = []
    hc = os.path.join(ROOT, "tools", "hook_commits.txt")
    if os.path.exists(hc):
        hooks_commits = [l.split()[0] for l in open(hc) if l.strip() and not l.startswith("#")]
    checks = []
    for pid in props:
        if pid not in CHECKS:
            continue
        tech, text, note, ref = CHECKS[pid]
        checks.append({
            "property_id": pid,
            "quick_cmd": f"./run.sh {pid} quick",
            "thorough_cmd": f"./run.sh {pid} thorough",
            "evidence_file": f"/verif/evidence/{pid}.json",
            "replay_cmd_template": "./run.sh replay {path}",
            "engine": "verifcheck",
            "level_claimed": {"category": "model_checking", "text": text, "design_ref": ref},
            "level_note": note,
            "technique": tech,
        })
    man = {
        "version": 1,
        "setup_cmd": "./setup.sh",
        "hooks": {
            "guard": "verif",
            "enable": "go build -tags verif (run.sh always builds the harness, and through its replace directive /repo's working tree, with -tags verif)",
            "baseline_off_cmd": "cd /repo && GOFLAGS=-mod=mod GOPROXY=off GOSUMDB=off GOTOOLCHAIN=local go test -json -vet=off -count=1 -timeout 25m ./...",
            "source_commits": hooks_commits,
            "add_only": True,
        },
        "engines": [
            {"name": "verifcheck", "path": "/verif/harness", "serves_properties": sorted(CHECKS),
             "kind_free_text": "hand-written Go explorer: bounded-exhaustive input enumeration, explicit-state BFS with canonical state keys, stateless deviation-bounded DFS over choice sequences (faults, map orders, fragmentation, schedules), all executing the real implementation from /repo against reference models"},
        ],
        "checks": checks,
        "not_applicable": [{"property_id": p, "reason": NOT_YET} for p in props if p not in CHECKS],
        "notes": "Every check rebuilds the harness against /repo's working tree (Go module replace) before running. Evidence is written by the check itself. known_findings.json lists genuine defects (fixed or recorded).",
    }
    with open(os.path.join(ROOT, "MANIFEST.json"), "w") as f:
        json.dump(man, f, indent=1)
        f.write("\n")
    print("wrote MANIFEST.json with", len(checks), "checks")


if __name__ == "__main__":
    main()
