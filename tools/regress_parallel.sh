#!/bin/bash
# tools/regress_parallel.sh [lanes] [filter]: re-runs every seeded change, every
# own mutant and every behaviour-preserving change against its checks, on
# `lanes` private copies of /repo and /verif at once (the registered commands
# work on /repo itself; a lane is the same machinery with /repo replaced by a
# scratch worktree, so /repo is never touched and lanes do not collide).
# Results: /verif/seeded/<id>/detection.txt, /verif/benign/<id>/result.txt and a
# summary on stdout. Scratch lanes live under /tmp/vlanes.<pid> and are removed.
# SRC=<dir>: take the checks from another copy of /verif (e.g. a worktree of an
# earlier commit) instead of the working copy; NOREC=1: do not rewrite
# detection.txt / result.txt (a what-if run).
set -u
N=${1:-6}; FILTER=${2:-.}
L=/tmp/vlanes.$$; rm -rf $L; mkdir -p $L  # private to this invocation: several may run at once
cd /verif
jobs=$L/jobs.txt; : > $jobs
for d in seeded/*/; do id=$(basename $d); prop=${id%%[-_]*}
  [ -f $d/obsolete.txt ] && continue  # no longer property-breaking on the current tree (see the file)
  p=$d/patch.diff; [ -f $d/patch_adapted.diff ] && p=$d/patch_adapted.diff
  echo "seed $id /verif/$p $prop $(cat $d/extra_checks.txt 2>/dev/null | tr '\n' ' ')" >> $jobs; done
for f in mutants/*.diff; do echo "mutant $(basename $f) /verif/$f $(grep -m1 '^# checks:' $f | sed 's/# checks://')" >> $jobs; done
all=$(seq -w 1 20 | sed 's/^/C/' | tr '\n' ' ')
for d in benign/*/; do echo "benign $(basename $d) /verif/$d/patch.diff $all" >> $jobs; done
grep -E "$FILTER" $jobs > $jobs.f; mv $jobs.f $jobs
# benign jobs are the longest: start them first
sort -k1,1 -o $jobs $jobs
for k in $(seq 1 $N); do
  git -C /repo worktree add -q --detach $L/repo$k HEAD || exit 2
  rsync -a --exclude .work --exclude replays --exclude .git ${SRC:-/verif}/ $L/verif$k/
  sed -i "s#/repo#$L/repo$k#g" $L/verif$k/run.sh $L/verif$k/harness/go.mod $L/verif$k/tools/mutate.sh
  awk -v k=$k -v n=$N 'NR%n==k%n' $jobs > $L/jobs$k.txt
  ( while read kind id patch checks; do
      out=$(VERIF_ROOT=$L/verif$k $L/verif$k/tools/mutate.sh $patch $checks 2>&1 | grep -E 'DETECTED|MISSED|NOT-BUILD|does not apply|not clean' | cut -c1-400)
      case $kind in
        seed) [ -z "${NOREC:-}" ] && echo "$out" | sed "s/patch_adapted.diff/$id(adapted)/;s/patch.diff/$id/" > /verif/seeded/$id/detection.txt; echo "$out" | sed "s/^/[$id] /" | cut -c1-200;;
        mutant) echo "$out" | cut -c1-200;;
        benign) { echo "benign change $id at repo HEAD $(git -C /repo rev-parse --short HEAD), $(date -u +%FT%TZ)"; echo "$out" | grep -E 'DETECTED|NOT-BUILD|does not apply|not clean' | sed 's/^DETECTED/ALARM   /'; echo "$out" | grep -E '^MISSED' | sed 's/^MISSED  /quiet   /' | cut -c1-160; } > /verif/benign/$id/result.txt
                echo "[benign $id] $(grep -c '^quiet' /verif/benign/$id/result.txt) quiet, $(grep -c '^ALARM' /verif/benign/$id/result.txt) alarms, $(grep -c 'exit [12])' /verif/benign/$id/result.txt) broken";;
      esac
    done < $L/jobs$k.txt ) > $L/out$k.log 2>&1 &
done
wait
cat $L/out*.log > /verif/.work/regress_$$.log 2>/dev/null; cp /verif/.work/regress_$$.log /verif/.work/regress_last.log
for k in $(seq 1 $N); do git -C /repo worktree remove --force $L/repo$k; done
git -C /repo worktree prune
echo "== summary"
echo "detected lines: $(grep -c DETECTED /verif/.work/regress_$$.log)"
echo "not detected / problems:"; grep -E "MISSED|NOT-BUILD|does not apply|not clean|alarms" /verif/.work/regress_$$.log | grep -v " [1-9][0-9]* quiet, 0 alarms, 0 broken" | cut -c1-220
rm -rf $L
