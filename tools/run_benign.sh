#!/bin/bash
# tools/run_benign.sh [id...]: applies each behaviour-preserving refactoring
# /verif/benign/<id>/patch.diff to /repo and runs EVERY quick check on it. A
# check that reports a violation (or breaks) on such a change is a false alarm
# of the machinery. Records /verif/benign/<id>/result.txt.
cd ${VERIF_ROOT:-/verif}
ids=("$@"); [ ${#ids[@]} -eq 0 ] && ids=($(ls /verif/benign))
all=$(seq -w 1 20 | sed 's/^/C/')
for id in "${ids[@]}"; do
  out=$(${VERIF_ROOT:-/verif}/tools/mutate.sh /verif/benign/$id/patch.diff $all 2>&1)
  {
    echo "benign change $id at repo HEAD $(git -C /repo rev-parse --short HEAD), $(date -u +%FT%TZ)"
    echo "$out" | grep -E 'DETECTED|NOT-BUILD|does not apply|not clean' | sed 's/^DETECTED/ALARM   /' | cut -c1-600
    echo "$out" | grep -E '^MISSED' | sed 's/^MISSED  /quiet   /' | cut -c1-160
  } | tee /verif/benign/$id/result.txt | grep -E 'ALARM|NOT-BUILD|does not apply|not clean|exit [12]' 
  echo "$id: $(grep -c '^quiet' /verif/benign/$id/result.txt) quiet, $(grep -c '^ALARM' /verif/benign/$id/result.txt) alarms"
done
