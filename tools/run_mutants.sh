#!/bin/bash
# Runs every mutants/*.diff (or the given ones) through the checks named in its
# "# checks:" header; prints one DETECTED/MISSED line per (mutant, check).
cd /verif
files=("$@"); [ ${#files[@]} -eq 0 ] && files=(mutants/*.diff)
for f in "${files[@]}"; do
  checks=$(grep -m1 '^# checks:' "$f" | sed 's/# checks://')
  tools/mutate.sh "$f" $checks 2>&1 | grep -E 'DETECTED|MISSED|MUTANT-DOES-NOT-BUILD|not clean|does not apply' | cut -c1-260
done
