#!/bin/bash
# tools/verify_seed.sh <id> [srcdir]: independently confirms a seeded change:
# copies SEEDED artefacts from the sub-agent's worktree into /verif/seeded/<id>/,
# then in a fresh scratch worktree of /repo HEAD: patch applies, builds, vets,
# the full existing test suite passes with it, the demo FAILS with the change
# and PASSES without it. Writes /verif/seeded/<id>/verification.txt.
set -u
id=$1; src=${2:-/tmp/wt/$id}
dst=/verif/seeded/$id; mkdir -p $dst
# ids like C05-r2 are stored under that name; scratch worktree names must not contain "/"
cp $src/SEEDED/patch.diff $dst/patch.diff
cp $src/SEEDED/notes.md $dst/notes.md 2>/dev/null
cp $src/SEEDED/demo_cmd.txt $dst/demo_cmd.txt 2>/dev/null
demo=$(cd $src && find . -name 'zz_seed_demo*' -not -path './SEEDED/*' | head -1)
[ -z "$demo" ] && demo=$(cd $src && git status --porcelain | grep '^??' | grep -v SEEDED | awk '{print $2}' | head -1)
cp $src/$demo $dst/ 2>/dev/null
echo "$demo" > $dst/demo_path.txt
wt=/tmp/wt/v_$id
cd /repo && git worktree remove --force $wt 2>/dev/null; git worktree add -q --detach $wt HEAD || exit 2
cd $wt; . /verif/env.sh
out=$dst/verification.txt; : > $out
log() { echo "$@" | tee -a $out; }
log "seed $id verified at repo HEAD $(git rev-parse --short HEAD) on $(date -u +%FT%TZ)"
mkdir -p $(dirname $demo); cp $src/$demo $demo
pkg=./$(dirname $demo)
# 1. demo without the change
if go test -vet=off -count=1 -run 'Seed|seed' $pkg >/tmp/wt/v_$id.demo0.log 2>&1; then log "demo without change: PASS"; else log "demo without change: FAIL (unexpected)"; tail -5 /tmp/wt/v_$id.demo0.log >> $out; fi
# 2. apply
if git apply $dst/patch.diff; then log "patch applies: yes"; else log "patch applies: NO"; cd /repo; git worktree remove --force $wt; exit 1; fi
go build ./... >>$out 2>&1 && log "go build ./...: ok" || log "go build: FAILED"
go vet $(git diff --name-only | xargs -n1 dirname | sort -u | sed 's#^#./#') >>$out 2>&1 && log "go vet (touched packages): ok" || log "go vet: reports"
# 3. demo with the change
if go test -vet=off -count=1 -run 'Seed|seed' $pkg >/tmp/wt/v_$id.demo1.log 2>&1; then log "demo with change: PASS (unexpected)"; else log "demo with change: FAIL (expected)"; grep -m3 -E '^\s+.*(Error|error|want|got|differ|mismatch)' /tmp/wt/v_$id.demo1.log | cut -c1-200 >> $out; fi
# 4. full existing suite with the change (demo moved aside)
mv $demo /tmp/wt/v_$id.demo.go
if go test -vet=off -count=1 ./... >/tmp/wt/v_$id.suite.log 2>&1; then log "existing test suite with change: PASS"; else log "existing test suite with change: FAIL"; grep -E '^(FAIL|---)' /tmp/wt/v_$id.suite.log | head -5 >> $out; fi
cd /repo; git worktree remove --force $wt
rm -f /tmp/wt/v_$id.*
cat $out
