#!/bin/bash
# validates MANIFEST.json and every evidence file against the schemas
cd "$(dirname "$0")/.."
python3-vt - <<'PY'
import json,jsonschema,glob,sys
m=json.load(open('MANIFEST.json')); jsonschema.validate(m,json.load(open('/root/.vp/MANIFEST.schema.json')))
s=json.load(open('/root/.vp/EVIDENCE.schema.json'))
bad=0
for f in sorted(glob.glob('evidence/*.json')):
    try: jsonschema.validate(json.load(open(f)),s)
    except Exception as e: print('INVALID',f,str(e)[:300]); bad=1
print('manifest ok; evidence files:',len(glob.glob('evidence/*.json')),'bad' if bad else 'all valid')
sys.exit(bad)
PY
