#!/bin/bash
# tools/lane.sh create <name> | remove <name>: a private scratch copy of /repo
# (git worktree) and of /verif under /tmp/lane_<name>, with every path in the
# copy's run.sh / go.mod / mutate.sh pointing at the scratch repo. For ad-hoc
# experiments (apply a patch in /tmp/lane_<name>/repo, run
# /tmp/lane_<name>/verif/run.sh ...) without touching /repo.
set -eu
cmd=$1; name=$2; L=/tmp/lane_$name
case $cmd in
  create) rm -rf $L; mkdir -p $L
    git -C /repo worktree add -q --detach $L/repo HEAD
    rsync -a --exclude .work --exclude replays --exclude .git /verif/ $L/verif/
    sed -i "s#/repo#$L/repo#g" $L/verif/run.sh $L/verif/harness/go.mod $L/verif/tools/mutate.sh
    echo $L;;
  sync) rsync -a --exclude .work --exclude replays --exclude .git /verif/ $L/verif/
    sed -i "s#/repo#$L/repo#g" $L/verif/run.sh $L/verif/harness/go.mod $L/verif/tools/mutate.sh;;
  remove) git -C /repo worktree remove --force $L/repo 2>/dev/null || true; git -C /repo worktree prune; rm -rf $L;;
esac
