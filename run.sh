#!/bin/bash
# ./run.sh <Cxx> quick|thorough   — rebuilds the harness against /repo's current
# working tree (hooks on: -tags verif) and runs one check.
# ./run.sh replay <file>          — re-runs one recorded case.
set -u
cd "$(dirname "$0")"
VERIF_DIR=$(pwd); export VERIF_DIR
. ./env.sh
mkdir -p .work/bin evidence replays
id=${1:?usage: run.sh <id> quick|thorough}
tier=${2:-quick}
build() { # $1 = output name, rest = extra go build args
  local out=$1; shift
  (cd harness && go build -tags verif "$@" -o "$VERIF_DIR/.work/bin/$out" ./cmd/verifcheck) || {
    echo "INTERNAL-ERROR: harness build failed ($out)" >&2; exit 2; }
}
build verifcheck
exec ./.work/bin/verifcheck "$id" "$tier"
