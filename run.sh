#!/bin/bash
# ./run.sh <Cxx> quick|thorough   — rebuilds the harness against /repo's current
# working tree (hooks on: -tags verif) and runs one check.
# ./run.sh replay <file>          — re-runs one recorded case.
# Checks that own map-iteration order / goroutine schedules are built from the
# instrumented overlay of /repo (see harness/instr); /repo itself is untouched.
set -u
cd "$(dirname "$0")"
VERIF_DIR=$(pwd); export VERIF_DIR
. ./env.sh
mkdir -p .work/bin evidence replays
id=${1:?usage: run.sh <id> quick|thorough}
tier=${2:-quick}
OVERLAY_CHECKS=" C01 C05 C07 C10 C11 C16 C17 C20 "

# The committed hooks (files tagged `verif` in /repo) name private helpers. When
# a change to /repo leaves them uncompilable while the module itself builds,
# everything runs without the tag (the parts that need a hook are skipped and
# the run is not reported as exhaustive) instead of failing.
TAGS=verif; HOOKFLAG=
if ! (cd /repo && go build -tags verif ./... ) >/dev/null 2>&1; then
  if (cd /repo && go build ./...) >/dev/null 2>&1; then
    TAGS=nohooks; HOOKFLAG="-hooks=false"
    echo "note: the verif-tagged hooks of /repo do not build against this tree; running without them" >&2
  fi
fi

build() { # $1 = output name, rest = extra go build args
  local out=$1; shift
  (cd harness && go build -tags $TAGS "$@" -o "$VERIF_DIR/.work/bin/$out" ./cmd/verifcheck)
}

need_overlay=0
case "$OVERLAY_CHECKS" in *" $id "*) need_overlay=1;; esac
if [ "$id" = replay ]; then
  prop=$(grep -o '"property": *"[^"]*"' "$tier" | head -1 | sed 's/.*"\(C[0-9]*\)"/\1/')
  case "$OVERLAY_CHECKS" in *" $prop "*) need_overlay=1;; esac
fi

if [ $need_overlay = 1 ]; then
  (cd harness && go build -o "$VERIF_DIR/.work/bin/instr" ./instr) || { echo "INTERNAL-ERROR: instrumenter build failed" >&2; exit 2; }
  # cache key: every non-test source of the module + the instrumenter + the runtime shims
  key=$( (cd /repo && find . -name '*.go' ! -name '*_test.go' -not -path './.git/*' | sort | xargs sha256sum; sha256sum "$VERIF_DIR/.work/bin/instr" "$VERIF_DIR"/harness/vrt/*/*.go; echo "$TAGS") | sha256sum | cut -c1-16)
  ov="$VERIF_DIR/.work/overlay/$key"
  mode=full
  if [ ! -f "$ov/overlay.json" ]; then
    find "$VERIF_DIR/.work/overlay" -mindepth 1 -maxdepth 1 -mmin +180 -exec rm -rf {} + 2>/dev/null; mkdir -p "$ov"
    (cd /repo && "$VERIF_DIR/.work/bin/instr" $HOOKFLAG -repo /repo -out "$ov" -vrt "$VERIF_DIR/harness/vrt") >"$ov/instr.log" 2>&1 || { cat "$ov/instr.log" >&2; rm -f "$ov/overlay.json"; }
  fi
  if [ -f "$ov/overlay.json" ] && build verifcheck-ov -tags "$TAGS overlay" -overlay "$ov/overlay.json" 2>"$ov/build.log"; then
    :
  else
    # degraded: map ranges only, real sync (never produces a violation by itself)
    [ -f "$ov/build.log" ] && head -20 "$ov/build.log" >&2
    mode=light; ovl="$ov.light"; mkdir -p "$ovl"
    if (cd /repo && "$VERIF_DIR/.work/bin/instr" $HOOKFLAG -light -repo /repo -out "$ovl" -vrt "$VERIF_DIR/harness/vrt") >"$ovl/instr.log" 2>&1 \
       && build verifcheck-ov -tags "$TAGS overlay" -overlay "$ovl/overlay.json"; then
      ov=$ovl
    else
      echo "INTERNAL-ERROR: instrumented build failed (full and light)" >&2; exit 2
    fi
  fi
  export VERIF_INSTR=$mode VERIF_INSTR_REPORT="$ov/report.json"
  racejob=
  case "$id" in C17) racejob=C17RACE;; C01|C07|C10|C11) racejob=BUILDRACE;; esac
  if [ -n "$racejob" ]; then
    # auxiliary free-running pass under the race detector (separate build: a
    # cooperative scheduler's hand-offs would blind it)
    mkdir -p .work/race
    if (cd harness && go build -race -tags $TAGS -o "$VERIF_DIR/.work/bin/verifcheck-race" ./cmd/verifcheck) 2>.work/race/build.log; then
      VERIF_OUT="$VERIF_DIR/.work/race" GORACE="halt_on_error=0" timeout 900 ./.work/bin/verifcheck-race $racejob "$tier" >.work/race/run.log 2>&1
      export VERIF_RACE_LOG="$VERIF_DIR/.work/race/run.log"
    else
      echo "note: -race build unavailable, auxiliary pass skipped" >&2
    fi
  fi
  exec ./.work/bin/verifcheck-ov "$id" "$tier"
fi
if [ "$id" = C19 ] || { [ "$id" = replay ] && [ "${prop:-}" = C19 ]; }; then
  # C19 is a test binary: the generators under test need a *testing.T
  (cd harness && go test -c -tags $TAGS -vet=off -o "$VERIF_DIR/.work/bin/c19.test" ./c19test) || { echo "INTERNAL-ERROR: c19 test binary build failed" >&2; exit 2; }
  if [ "$id" = replay ]; then export VERIF_REPLAY="$tier"; else export VERIF_TIER="$tier"; fi
  if [ "$id" = C19 ]; then
    # auxiliary free-running pass under the race detector: generator calls that
    # share no argument, on separate goroutines
    mkdir -p .work/race19
    if (cd harness && go test -c -race -tags $TAGS -vet=off -o "$VERIF_DIR/.work/bin/c19race.test" ./c19test) 2>.work/race19/build.log; then
      VERIF_C19_RACE=1 GORACE="halt_on_error=0" timeout 900 ./.work/bin/c19race.test -test.run '^TestC19$' -test.timeout 0 >.work/race19/run.log 2>&1
      export VERIF_RACE_LOG="$VERIF_DIR/.work/race19/run.log"
    else
      echo "note: -race build unavailable, auxiliary pass skipped" >&2
    fi
  fi
  exec ./.work/bin/c19.test -test.run '^TestC19$' -test.timeout 0
fi
build verifcheck || { echo "INTERNAL-ERROR: harness build failed" >&2; exit 2; }
exec ./.work/bin/verifcheck "$id" "$tier"
